import LeanHelix.Props.C01Local
import LeanHelix.Props.C11NewView
import LeanHelix.Props.C03
import LeanHelix.Props.C04
import LeanHelix.Lemmas.TermClean
import LeanHelix.Lemmas.TermOwn
/-!
# The network model, part 1: what the adversary can show to a correct node

One height of one instance.  `NetCfg` fixes the instance id, the height, the committee (ids and
weights, in leader order) and which ids are correct (`honest`).  All correct members run the term
model (`Model/Term.lean`, tied to the Go code by the `node` correspondence suite) with the
configuration `C.cfg i`.

**Signatures.**  In the term model every `SenderSignature` carries the key manager's verdict `ok`.
The network model constrains which verdicts the adversary can obtain — *unforgeability*: a signature
that verifies (`ok = true`), is attributed to a *correct* member and covers a statement *of this
instance and this height* can only be shown if that member made the statement.  `H` is the history
of statements correct members have made so far (`Spec.Ev`); the constraint is expressed against it:

* a verifying PREPREPARE- or PREPARE-typed block reference `(v, h)` by correct `m` needs `acc m v h ∈ H`;
* a verifying COMMIT-typed reference needs `com m v h ∈ H ∨ lcom m v h ∈ H`;
* a verifying VIEW_CHANGE header for view `v` whose proof certifies `pf` needs `vote m v pf ∈ H`.

Everything else is free: signatures of Byzantine members and outsiders, failing signatures,
signatures over statements of another instance or height (correct members of other instances sign
arbitrary things with the same keys), any field values, any nesting, replay, reordering, loss and
duplication.  This is *more* permissive than real unforgeability (a PREPARE signature may be
re-labelled as a PREPREPARE signature of the same member, and a vote's signature only binds the
(view, certified (view, hash)) of the vote, not the exact proof bytes), so the safety theorem proved
against it is stronger.
-/
namespace LeanHelix.Net
open LeanHelix LeanHelix.Msg LeanHelix.Term LeanHelix.Spec

structure NetCfg where
  inst : Nat
  height : Nat
  ms : List Member
  honest : Nat → Bool

def NetCfg.cfg (C : NetCfg) (i : Nat) : Cfg := ⟨i, C.inst, C.height, C.ms⟩

/-- the premise of the safety properties: total weight fits 64 bits and is positive, Byzantine weight ≤ f -/
structure WF (C : NetCfg) : Prop where
  fit : C06.Fits C.ms
  byz : wt C.ms (fun i => !C.honest i) ≤ F C.ms

def setting (C : NetCfg) (h : WF C) : Setting := ⟨C.ms, C.honest, h.fit.pos, h.byz⟩

variable (C : NetCfg)

/-! ## admissible signatures -/

def sigAcc (H : List Ev) (s : SSig) (v h : Nat) : Prop :=
  s.ok = true → C.honest s.id = true → Ev.acc s.id v h ∈ H

def sigCmt (H : List Ev) (s : SSig) (v h : Nat) : Prop :=
  s.ok = true → C.honest s.id = true → (Ev.com s.id v h ∈ H ∨ Ev.lcom s.id v h ∈ H)

def sigVote (H : List Ev) (s : SSig) (v : Nat) (pf : Option (Nat × Nat)) : Prop :=
  s.ok = true → C.honest s.id = true → Ev.vote s.id v pf ∈ H

/-- a signed block reference (the signed header of PREPREPARE / PREPARE / COMMIT, also inside proofs) -/
def AdmRef (H : List Ev) (r : BlockRef) (s : SSig) : Prop :=
  r.inst = C.inst → r.height = C.height →
    ((r.mtype = tPP ∨ r.mtype = tP) → sigAcc C H s r.view r.hash) ∧ (r.mtype = tC → sigCmt C H s r.view r.hash)

def AdmProof (H : List Ev) (p : Proof) : Prop :=
  AdmRef C H p.ppRef p.ppSender ∧ ∀ s ∈ p.pSenders, AdmRef C H p.pRef s

def AdmVC (H : List Ev) (c : VCContent) : Prop :=
  (c.header.inst = C.inst → c.header.height = C.height → c.header.mtype = tVC →
      sigVote C H c.sender c.header.view (pfOf c.header.proof))
  ∧ (∀ p, c.header.proof = some p → AdmProof C H p)

def AdmOp (H : List Ev) : StoreOp → Prop
  | .pp m => AdmRef C H m.c.header m.c.sender
  | .prepare m => AdmRef C H m.header m.sender
  | .commit m => AdmRef C H m.header m.sender
  | .vc m => AdmVC C H m.c

def AdmMsg (H : List Ev) : Message → Prop
  | .preprepare m => AdmRef C H m.c.header m.c.sender
  | .prepare m => AdmRef C H m.header m.sender
  | .commit m => AdmRef C H m.header m.sender
  | .viewChange m => AdmVC C H m.c
  | .newView m => AdmRef C H m.pp.header m.pp.sender ∧ ∀ c ∈ m.header.votes, AdmVC C H c

def AdmEvent (H : List Ev) : Event → Prop
  | .deliver m => AdmMsg C H m
  | _ => True

/-- every logged message is admissible -/
structure StoreAdm (H : List Ev) (n : Node) : Prop where
  pps : ∀ m ∈ n.store.pps, AdmRef C H m.c.header m.c.sender
  prepares : ∀ m ∈ n.store.prepares, AdmRef C H m.header m.sender
  commits : ∀ m ∈ n.store.commits, AdmRef C H m.header m.sender
  vcs : ∀ m ∈ n.store.vcs, AdmVC C H m.c

/-! ## monotonicity in the history -/

section mono
variable {C} {H H' : List Ev} (hsub : ∀ e ∈ H, e ∈ H')
include hsub

theorem AdmRef.mono {r : BlockRef} {s : SSig} (h : AdmRef C H r s) : AdmRef C H' r s := by
  intro h1 h2
  obtain ⟨a, b⟩ := h h1 h2
  refine ⟨fun ht ok hh => hsub _ (a ht ok hh), fun ht ok hh => ?_⟩
  rcases b ht ok hh with x | x
  · exact Or.inl (hsub _ x)
  · exact Or.inr (hsub _ x)

theorem AdmProof.mono {p : Proof} (h : AdmProof C H p) : AdmProof C H' p :=
  ⟨h.1.mono hsub, fun s hs => (h.2 s hs).mono hsub⟩

theorem AdmVC.mono {c : VCContent} (h : AdmVC C H c) : AdmVC C H' c :=
  ⟨fun h1 h2 h3 ok hh => hsub _ (h.1 h1 h2 h3 ok hh), fun p hp => (h.2 p hp).mono hsub⟩

theorem AdmOp.mono {op : StoreOp} (h : AdmOp C H op) : AdmOp C H' op := by
  cases op with
  | pp m => exact AdmRef.mono hsub h
  | prepare m => exact AdmRef.mono hsub h
  | commit m => exact AdmRef.mono hsub h
  | vc m => exact AdmVC.mono hsub h

theorem StoreAdm.mono {n : Node} (h : StoreAdm C H n) : StoreAdm C H' n :=
  ⟨fun m hm => (h.pps m hm).mono hsub, fun m hm => (h.prepares m hm).mono hsub,
   fun m hm => (h.commits m hm).mono hsub, fun m hm => (h.vcs m hm).mono hsub⟩

theorem AdmEvent.mono {e : Event} (h : AdmEvent C H e) : AdmEvent C H' e := by
  cases e with
  | deliver m =>
    cases m with
    | preprepare x => exact AdmRef.mono hsub h
    | prepare x => exact AdmRef.mono hsub h
    | commit x => exact AdmRef.mono hsub h
    | viewChange x => exact AdmVC.mono hsub h
    | newView x => exact ⟨AdmRef.mono hsub h.1, fun c hc => AdmVC.mono hsub (h.2 c hc)⟩
  | start c => trivial
  | election h v => trivial
  | cancelOlder h v => trivial

end mono

theorem storeAdm_of_store_eq {H : List Ev} {a b : Node} (hs : b.store = a.store) (h : StoreAdm C H a) : StoreAdm C H b :=
  ⟨by rw [hs]; exact h.pps, by rw [hs]; exact h.prepares, by rw [hs]; exact h.commits, by rw [hs]; exact h.vcs⟩

/-- logging an admissible message keeps the log admissible -/
theorem storeAdm_apply {H : List Ev} {a : Node} (op : StoreOp) (h : StoreAdm C H a) (hop : AdmOp C H op) :
    StoreAdm C H { a with store := a.store.apply op } := by
  cases op with
  | pp m =>
    refine ⟨?_, ?_, ?_, ?_⟩
    · intro x hx
      rcases mem_storePP hx with hx | rfl
      · exact h.pps x hx
      · exact hop
    · intro x hx
      have : (a.store.storePP m).prepares = a.store.prepares := storePP_prepares _ _
      exact h.prepares x (by rw [← this]; exact hx)
    · intro x hx
      have : (a.store.storePP m).commits = a.store.commits := by unfold Store.storePP; split <;> rfl
      exact h.commits x (by rw [← this]; exact hx)
    · intro x hx
      have : (a.store.storePP m).vcs = a.store.vcs := by unfold Store.storePP; split <;> rfl
      exact h.vcs x (by rw [← this]; exact hx)
  | prepare m =>
    refine ⟨?_, ?_, ?_, ?_⟩
    · intro x hx
      have : (a.store.storePrepare m).pps = a.store.pps := storePrepare_pps _ _
      exact h.pps x (by rw [← this]; exact hx)
    · intro x hx
      rcases mem_storePrepare hx with hx | rfl
      · exact h.prepares x hx
      · exact hop
    · intro x hx
      have : (a.store.storePrepare m).commits = a.store.commits := by unfold Store.storePrepare; split <;> rfl
      exact h.commits x (by rw [← this]; exact hx)
    · intro x hx
      have : (a.store.storePrepare m).vcs = a.store.vcs := by unfold Store.storePrepare; split <;> rfl
      exact h.vcs x (by rw [← this]; exact hx)
  | commit m =>
    refine ⟨?_, ?_, ?_, ?_⟩
    · intro x hx
      have : (a.store.storeCommit m).pps = a.store.pps := storeCommit_pps _ _
      exact h.pps x (by rw [← this]; exact hx)
    · intro x hx
      have : (a.store.storeCommit m).prepares = a.store.prepares := storeCommit_prepares _ _
      exact h.prepares x (by rw [← this]; exact hx)
    · intro x hx
      rcases mem_storeCommit hx with hx | rfl
      · exact h.commits x hx
      · exact hop
    · intro x hx
      have : (a.store.storeCommit m).vcs = a.store.vcs := by unfold Store.storeCommit; split <;> rfl
      exact h.vcs x (by rw [← this]; exact hx)
  | vc m =>
    refine ⟨?_, ?_, ?_, ?_⟩
    · intro x hx
      have : (a.store.storeVC m).pps = a.store.pps := storeVC_pps _ _
      exact h.pps x (by rw [← this]; exact hx)
    · intro x hx
      have : (a.store.storeVC m).prepares = a.store.prepares := storeVC_prepares _ _
      exact h.prepares x (by rw [← this]; exact hx)
    · intro x hx
      have : (a.store.storeVC m).commits = a.store.commits := by unfold Store.storeVC; split <;> rfl
      exact h.commits x (by rw [← this]; exact hx)
    · intro x hx
      rcases mem_storeVC hx with hx | rfl
      · exact h.vcs x hx
      · exact hop

/-- the logged message of a delivery is admissible when the delivery is -/
theorem admOp_of_event {H : List Ev} {e : Event} {op : StoreOp} (he : evOp e = some op) (ha : AdmEvent C H e) :
    AdmOp C H op := by
  cases e with
  | deliver m =>
    cases m with
    | prepare x => simp only [evOp, Option.some.injEq] at he; subst he; exact ha
    | commit x => simp only [evOp, Option.some.injEq] at he; subst he; exact ha
    | viewChange x => simp only [evOp, Option.some.injEq] at he; subst he; exact ha
    | preprepare x => simp [evOp] at he
    | newView x => simp [evOp] at he
  | start c => simp [evOp] at he
  | election h v => simp [evOp] at he
  | cancelOlder h v => simp [evOp] at he

/-! ## quorums of the model are quorums of the abstract layer -/

theorem quorum_wt (c : Cfg) (hfit : C06.Fits c.members) (ids : List Nat) (h : isQuorum c ids = true) :
    Q c.members ≤ wt c.members (fun i => ids.contains i) := by
  unfold isQuorum Quorum.isQuorum at h
  simp only [decide_eq_true_eq, ge_iff_le] at h
  rw [calcQuorumWeight_eq c.members hfit.pos hfit.fits, subsetWeight_eq ids c.members hfit.fits] at h
  exact h

theorem isQuorum_ne_nil (c : Cfg) (hfit : C06.Fits c.members) (ids : List Nat) (h : isQuorum c ids = true) : ids ≠ [] := by
  intro he
  have := quorum_wt c hfit ids h
  rw [he] at this
  have h0 : wt c.members (fun i => ([] : List Nat).contains i) = 0 := by
    have : (fun i => ([] : List Nat).contains i) = (fun _ => false) := by funext i; rfl
    rw [this]; exact wt_false _
  have tf := three_f_lt c.members hfit.pos
  unfold Q at this
  omega

end LeanHelix.Net
