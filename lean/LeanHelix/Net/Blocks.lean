import LeanHelix.Net.Model
/-!
# The network model, part 4: every atomic block of a correct node extends a valid global history

`Core` ties one correct node's state to its own statements `T` and to the global history `H`.
`blk_net`: an atomic block (`Lemmas/TermRuns.lean`) of the handling of an admissible, filtered event
keeps `Core` and extends a `Spec.Valid` history by a `Spec.Justified` statement — the node-local
part is `C01Local.blk_inv`, the certificate part comes from `Net/Certs.lean`.
-/
namespace LeanHelix.Net
open LeanHelix LeanHelix.Msg LeanHelix.Term LeanHelix.Spec
open LeanHelix.C01Local (GInv LocalJ LocalValid lift)

variable (C : NetCfg)

structure Core (H : List Ev) (i : Nat) (n : Node) (T : List LEv) : Prop where
  cfg : n.cfg = C.cfg i
  ginv : GInv T n
  sees : H.filter (mine i) = T.map (lift i)
  adm : StoreAdm C H n
  /-- a logged vote has a block exactly when it has a proof -/
  vcb : ∀ m ∈ n.store.vcs, m.block.isSome = m.c.header.proof.isSome
  /-- the node's own logged votes carry the proof of a view it was prepared in -/
  ownvc : ∀ m ∈ n.store.vcs, m.c.sender = mySig n.cfg → m.c.header.mtype = tVC ∧
      ∀ p, m.c.header.proof = some p → p.pRef.hash = p.ppRef.hash ∧ p.ppRef.view < m.c.header.view
        ∧ LEv.com p.ppRef.view p.ppRef.hash ∈ T
  /-- the proposal a node is prepared on has its block -/
  prepBlock : ∀ pv, n.prepared = some pv → ∃ ppm, n.store.getPP n.cfg.height pv = some ppm ∧ ppm.block.isSome = true

variable {C}

theorem localJ_of_valid_cons {T : List LEv} {x : LEv} (h : LocalValid (x :: T)) : LocalJ T x := by
  cases h with
  | cons _ hj => exact hj

theorem sees_cons {i : Nat} {H : List Ev} {T : List LEv} (hs : H.filter (mine i) = T.map (lift i)) (x : LEv) :
    (lift i x :: H).filter (mine i) = (x :: T).map (lift i) := by
  rw [List.filter_cons, mine_lift]
  simp only [if_true, List.map_cons, hs]

theorem sees_cons_other {i j : Nat} (hij : i ≠ j) {H : List Ev} {T : List LEv} (hs : H.filter (mine j) = T.map (lift j)) (x : LEv) :
    (lift i x :: H).filter (mine j) = T.map (lift j) := by
  rw [List.filter_cons, mine_lift_ne hij]
  simpa using hs

/-- generic step of `Core` when the logged votes do not change -/
theorem core_step {H H' : List Ev} {i : Nat} {a b : Node} {T T' : List LEv} (hc : Core C H i a T)
    (hcfg : b.cfg = a.cfg) (hg : GInv T' b) (hsees : H'.filter (mine i) = T'.map (lift i))
    (hTsub : ∀ x ∈ T, x ∈ T') (hadm : StoreAdm C H' b) (hvcs : b.store.vcs = a.store.vcs)
    (hprep : ∀ pv, b.prepared = some pv → ∃ ppm, b.store.getPP b.cfg.height pv = some ppm ∧ ppm.block.isSome = true) :
    Core C H' i b T' where
  cfg := hcfg.trans hc.cfg
  ginv := hg
  sees := hsees
  adm := hadm
  vcb := by rw [hvcs]; exact hc.vcb
  ownvc := by
    rw [hvcs, hcfg]
    intro m hm hmine
    obtain ⟨o1, o2⟩ := hc.ownvc m hm hmine
    exact ⟨o1, fun p hp => let ⟨q1, q2, q3⟩ := o2 p hp; ⟨q1, q2, hTsub _ q3⟩⟩
  prepBlock := hprep

theorem prep_of_apply {a : Node} (op : StoreOp)
    (h : ∀ pv, a.prepared = some pv → ∃ ppm, a.store.getPP a.cfg.height pv = some ppm ∧ ppm.block.isSome = true) :
    ∀ pv, a.prepared = some pv → ∃ ppm, (a.store.apply op).getPP a.cfg.height pv = some ppm ∧ ppm.block.isSome = true := by
  intro pv hp
  obtain ⟨ppm, hg, hb⟩ := h pv hp
  exact ⟨ppm, apply_getPP_stable _ op _ _ _ hg, hb⟩

theorem apply_vcs_of_not_vc (s : Store) (op : StoreOp) (h : ∀ m, op ≠ .vc m) : (s.apply op).vcs = s.vcs := by
  cases op with
  | vc m => exact absurd rfl (h m)
  | pp m => exact storePP_vcs s m
  | commit m => exact storeCommit_vcs s m
  | prepare m => exact storePrepare_vcs s m

theorem mySig_id (c : Cfg) : (mySig c).id = c.me := rfl
theorem mySig_ok (c : Cfg) : (mySig c).ok = true := rfl

/-- the own signature over a statement just made is admissible -/
theorem admRef_own_acc {H : List Ev} {i : Nat} (t v hash : Nat) (ht : t ≠ tC) (hin : Ev.acc i v hash ∈ H) :
    AdmRef C H ⟨t, C.inst, C.height, v, hash⟩ (mySig (C.cfg i)) := by
  intro _ _
  exact ⟨fun _ _ _ => hin, fun hc => absurd hc ht⟩

theorem commitHash_getCommits (s : Store) (h v hash : Nat) (hne : s.getCommits h v hash ≠ []) :
    commitHash (s.getCommits h v hash) = hash := by
  cases hl : s.getCommits h v hash with
  | nil => exact absurd hl hne
  | cons c rest =>
    have : c ∈ s.getCommits h v hash := by rw [hl]; exact List.mem_cons_self ..
    unfold Store.getCommits at this
    rw [List.mem_filter] at this
    simp only [Bool.and_eq_true, beq_iff_eq] at this
    exact this.2.2

theorem gate_vc {c : Cfg} {e : Event} {m : VCMsg} (he : evOp e = some (.vc m)) (hg : Gate c e) :
    m.c.sender.id ≠ c.me ∧ ∀ b, m.block = some b → b.hash ≠ emptyBytes := by
  cases e with
  | deliver x =>
    cases x with
    | viewChange y =>
      simp only [evOp, Option.some.injEq, StoreOp.vc.injEq] at he; subst he
      exact ⟨hg.2.2.1, hg.2.2.2⟩
    | prepare y => simp [evOp] at he
    | commit y => simp [evOp] at he
    | preprepare y => simp [evOp] at he
    | newView y => simp [evOp] at he
  | start c => simp [evOp] at he
  | election h v => simp [evOp] at he
  | cancelOlder h v => simp [evOp] at he

/-- the proof and block a prepared node attaches to its vote -/
theorem vote_payload {T : List LEv} {a : Node} (hT : GInv T a)
    (hpb : ∀ pv, a.prepared = some pv → ∃ ppm, a.store.getPP a.cfg.height pv = some ppm ∧ ppm.block.isSome = true) :
    (a.prepared = none ∧ voteProof a = none ∧ voteBlock a = none)
    ∨ (∃ pv p b ppm, a.prepared = some pv ∧ extractProof a pv = some (p, b) ∧ voteProof a = some p ∧ voteBlock a = b
        ∧ b.isSome = true ∧ a.store.getPP a.cfg.height pv = some ppm
        ∧ p.ppRef.view = pv ∧ p.ppRef.hash = ppm.c.header.hash ∧ p.pRef.hash = ppm.c.header.hash
        ∧ LEv.com pv ppm.c.header.hash ∈ T) := by
  cases hp : a.prepared with
  | none => left; exact ⟨rfl, by unfold voteProof; rw [hp], by unfold voteBlock; rw [hp]⟩
  | some pv =>
    right
    obtain ⟨_, ⟨ppm1, hg1, hcom⟩, hsome⟩ := hT.prep pv hp
    cases hx : extractProof a pv with
    | none => rw [hx] at hsome; cases hsome
    | some pb =>
      obtain ⟨p, b⟩ := pb
      obtain ⟨ppm, p0, hg, hp0, e1, _, e3, _, e5⟩ := extractProof_shape a pv p b hx
      obtain ⟨ppm2, hg2, hb2⟩ := hpb pv hp
      have h12 : ppm1 = ppm := by rw [hg1] at hg; exact Option.some.inj hg
      have h22 : ppm2 = ppm := by rw [hg2] at hg; exact Option.some.inj hg
      rw [h12] at hcom
      rw [h22] at hb2
      obtain ⟨_, _, hv⟩ := getPP_spec hg
      have hp0h : p0.header.hash = ppm.c.header.hash := by
        unfold Store.getPrepares at hp0
        rw [List.mem_filter] at hp0
        simp only [Bool.and_eq_true, beq_iff_eq] at hp0
        exact hp0.2.2
      refine ⟨pv, p, b, ppm, (by first | exact hp | rfl), (by first | exact hx | rfl), ?_, ?_, by rw [e5]; exact hb2, hg, by rw [e1]; exact hv, by rw [e1], by rw [e3]; exact hp0h, hcom⟩
      · unfold voteProof; rw [hp]; show Option.map _ (extractProof a pv) = _; rw [hx]; rfl
      · unfold voteBlock; rw [hp]; show Option.bind (extractProof a pv) _ = _; rw [hx]; rfl

/-- **every atomic block of a correct node's handling of an admissible, filtered event keeps the
node's tie to the global history and extends a valid history by a justified statement** -/
theorem blk_net (hwf : WF C) {e : Event} {spi0 : List Spi} {i : Nat} {a b : Node} {l : List Out} {g : List LEv} {T : List LEv} {H : List Ev}
    (hb : Blk e spi0 a b l g) (hhon : C.honest i = true) (hmem : ∃ m ∈ C.ms, m.id = i)
    (hgate : Gate (C.cfg i) e) (hae : AdmEvent C H e)
    (hc : Core C H i a T) (hv : Valid (setting C hwf) H) (hua : Univ a) (hub : Univ b) :
    Core C ((g.map (lift i)).reverse ++ H) i b (g.reverse ++ T)
    ∧ Valid (setting C hwf) ((g.map (lift i)).reverse ++ H) := by
  have hfit : C06.Fits a.cfg.members := by rw [hc.cfg]; exact hwf.fit
  have hg := C01Local.blk_inv hfit hc.ginv hb
  have hSees := sees_of_filter hc.sees
  have hme : a.cfg.me = i := by rw [hc.cfg]; rfl
  have hinst : a.cfg.inst = C.inst := by rw [hc.cfg]; rfl
  have hheight : a.cfg.height = C.height := by rw [hc.cfg]; rfl
  cases hb with
  | quiet hq hs hl =>
    refine ⟨core_step hc hq.cfg hg hc.sees (fun _ h => h) (storeAdm_of_store_eq C hs hc.adm) (by rw [hs]) ?_, hv⟩
    intro pv hp
    rw [hq.prepared] at hp
    obtain ⟨ppm, h1, h2⟩ := hc.prepBlock pv hp
    exact ⟨ppm, by rw [hq.cfg, hs]; exact h1, h2⟩
  | log op he =>
    refine ⟨?_, hv⟩
    have hadm' := storeAdm_apply C op hc.adm (admOp_of_event C he hae)
    have hprep' := prep_of_apply op hc.prepBlock
    cases op with
    | pp m => exact core_step hc rfl hg hc.sees (fun _ h => h) hadm' (storePP_vcs _ _) hprep'
    | prepare m => exact core_step hc rfl hg hc.sees (fun _ h => h) hadm' (storePrepare_vcs _ _) hprep'
    | commit m => exact core_step hc rfl hg hc.sees (fun _ h => h) hadm' (storeCommit_vcs _ _) hprep'
    | vc m =>
      obtain ⟨hnotme, hnoempty⟩ := gate_vc he hgate
      have hnotmine : m.c.sender ≠ mySig a.cfg := by
        intro h
        apply hnotme
        rw [h, hc.cfg]; rfl
      refine ⟨hc.cfg, hg, hc.sees, hadm', ?_, ?_, hprep'⟩
      · intro x hx
        rcases mem_storeVC hx with hx | rfl
        · exact hc.vcb x hx
        · rcases hub.vcs.auth x hx with hchk | hmine
          · obtain ⟨_, h2, h3⟩ := hchk
            cases hbk : x.block with
            | none =>
              cases hpr : x.c.header.proof with
              | none => rfl
              | some p => exact absurd ⟨by rw [hbk]; rfl, by rw [hpr]; rfl⟩ h2
            | some bk =>
              cases hpr : x.c.header.proof with
              | some p => rfl
              | none =>
                exfalso
                have := h3 (by rw [hbk]; rfl)
                rw [hbk, hpr] at this
                simp only [commitmentOk, proofHash, beq_iff_eq] at this
                exact hnoempty bk hbk this
          · exact absurd hmine hnotmine
      · intro x hx hmine
        rcases mem_storeVC hx with hx | rfl
        · exact hc.ownvc x hx hmine
        · exact absurd hmine hnotmine
  | accept ppm f rcpt hh hv' hnone hnl hlock hsrc hval =>
    have hsub : ∀ x ∈ H, x ∈ Ev.acc i ppm.c.header.view ppm.c.header.hash :: H := fun _ h => List.mem_cons_of_mem _ h
    constructor
    · refine core_step hc rfl hg (sees_cons hc.sees _) (fun _ h => List.mem_cons_of_mem _ h) ?_ ?_ ?_
      · have hpp' : AdmOp C (Ev.acc i ppm.c.header.view ppm.c.header.hash :: H) (.pp ppm) := by
          rcases hsrc with ⟨he, _⟩ | ⟨nvm, he, hppm, _, _⟩
          · subst he; exact AdmRef.mono hsub hae
          · subst he
            have hcc : ppm.c = nvm.pp := by rw [hppm]
            show AdmRef C _ ppm.c.header ppm.c.sender
            rw [hcc]
            exact AdmRef.mono (fun _ h => List.mem_cons_of_mem _ h) hae.1
        have hown' : AdmOp C (Ev.acc i ppm.c.header.view ppm.c.header.hash :: H)
            (.prepare (ownPrepare a.cfg ppm.c.header.height ppm.c.header.view ppm.c.header.hash)) := by
          intro _ _
          refine ⟨fun _ _ _ => ?_, fun hc' => absurd hc' tP_ne_tC⟩
          show Ev.acc (mySig a.cfg).id _ _ ∈ _
          rw [mySig_id, hme]; exact List.mem_cons_self ..
        exact storeAdm_apply C _ (storeAdm_apply C (.pp ppm) (hc.adm.mono hsub) hpp') hown'
      · show ((a.store.storePP ppm).storePrepare _).vcs = a.store.vcs
        rw [storePrepare_vcs, storePP_vcs]
      · exact prep_of_apply (a := { a with store := a.store.apply (.pp ppm) }) (.prepare _) (prep_of_apply (.pp ppm) hc.prepBlock)
    · refine .cons hv (C01Local.justified_of_local _ i H T _ hSees (localJ_of_valid_cons hg.valid) ?_)
      intro _ hf
      rcases hsrc with ⟨_, hff⟩ | ⟨nvm, he, hppm, _, hchk⟩
      · rw [hff] at hf; cases hf
      · subst he
        rw [hc.cfg] at hchk
        have := newViewJust_of_checked C hwf H i nvm hgate.2.1 hchk hae.2
        rw [hppm]
        show newViewJust _ H nvm.pp.header.view nvm.pp.header.hash
        rw [hchk.2.1]; exact this
  | prepared v hash rcpt hv' hnot hpp hproof =>
    have hsub : ∀ x ∈ H, x ∈ Ev.com i v hash :: H := fun _ h => List.mem_cons_of_mem _ h
    constructor
    · refine core_step hc rfl hg (sees_cons hc.sees _) (fun _ h => List.mem_cons_of_mem _ h) ?_ ?_ ?_
      · have hown' : AdmOp C (Ev.com i v hash :: H) (.commit (ownCommit a.cfg a.cfg.height v hash)) := by
          intro _ _
          refine ⟨fun ht => ?_, fun _ _ _ => ?_⟩
          · rcases ht with ht | ht
            · exact absurd ht.symm tPP_ne_tC
            · exact absurd ht.symm tP_ne_tC
          · left
            show Ev.com (mySig a.cfg).id _ _ ∈ _
            rw [mySig_id, hme]; exact List.mem_cons_self ..
        have h1 := storeAdm_apply C _ (hc.adm.mono hsub) hown'
        exact ⟨h1.pps, h1.prepares, h1.commits, h1.vcs⟩
      · show (a.store.storeCommit _).vcs = a.store.vcs
        exact storeCommit_vcs _ _
      · intro pv hp
        have : pv = v := (Option.some.inj hp).symm
        subst this
        obtain ⟨ppm, h1, _, h3⟩ := hpp
        exact ⟨ppm, apply_getPP_stable _ (.commit _) _ _ _ h1, h3⟩
    · refine .cons hv (C01Local.justified_of_local _ i H T _ hSees (localJ_of_valid_cons hg.valid) ?_)
      obtain ⟨ppm, hg1, hcert⟩ := validCert_of_extract C hwf H i a hc.cfg hua.proposals hua.prepares hua.clean hc.adm v hproof
      obtain ⟨ppm', hg2, hh2, _⟩ := hpp
      have : ppm = ppm' := by rw [hg1] at hg2; exact Option.some.inj hg2
      subst this
      show validCert _ H v hash
      rw [← hh2]; exact hcert
  | late h v hash rcpt hq =>
    constructor
    · exact core_step hc rfl hg (sees_cons hc.sees _) (fun _ h => List.mem_cons_of_mem _ h)
        (hc.adm.mono (fun _ h => List.mem_cons_of_mem _ h)) rfl hc.prepBlock
    · refine .cons hv (C01Local.justified_of_local _ i H T _ hSees (localJ_of_valid_cons hg.valid) ?_)
      exact commitQuorum_of_store C hwf H i a hc.cfg hua.commits hua.clean hc.adm h v hash hq
  | decide blk cs h v hash hq hs hcs hcq hpp =>
    constructor
    · refine core_step hc hq.cfg hg (sees_cons hc.sees _) (fun _ h => List.mem_cons_of_mem _ h)
        (storeAdm_of_store_eq C hs (hc.adm.mono (fun _ h => List.mem_cons_of_mem _ h))) (by rw [hs]) ?_
      intro pv hp
      rw [hq.prepared] at hp
      obtain ⟨ppm, h1, h2⟩ := hc.prepBlock pv hp
      exact ⟨ppm, by rw [hq.cfg, hs]; exact h1, h2⟩
    · refine .cons hv (C01Local.justified_of_local _ i H T _ hSees (localJ_of_valid_cons hg.valid) ?_)
      have hne : cs ≠ [] := by
        intro he
        have := isQuorum_ne_nil a.cfg hfit _ hcq
        rw [he] at this; exact this rfl
      rw [hcs] at hne hcq
      refine ⟨v, ?_⟩
      rw [hcs, commitHash_getCommits _ _ _ _ hne]
      exact commitQuorum_of_store C hwf H i a hc.cfg hua.commits hua.clean hc.adm h v hash hcq
  | propose ppm f o hh hv' hnone hlnv hf ho hown hsrc hreq hblk hmsg =>
    have hsub : ∀ x ∈ H, x ∈ Ev.acc i ppm.c.header.view ppm.c.header.hash :: H := fun _ h => List.mem_cons_of_mem _ h
    constructor
    · refine core_step hc rfl hg (sees_cons hc.sees _) (fun _ h => List.mem_cons_of_mem _ h) ?_ (storePP_vcs _ _)
        (prep_of_apply (.pp ppm) hc.prepBlock)
      have hown' : AdmOp C (Ev.acc i ppm.c.header.view ppm.c.header.hash :: H) (.pp ppm) := by
        intro _ _
        refine ⟨fun _ _ _ => ?_, fun hc' => ?_⟩
        · show Ev.acc ppm.c.sender.id _ _ ∈ _
          rw [hown.1, mySig_id, hme]; exact List.mem_cons_self ..
        · rw [hown.2.2] at hc'; exact absurd hc' tPP_ne_tC
      exact storeAdm_apply C _ (hc.adm.mono hsub) hown'
    · refine .cons hv (C01Local.justified_of_local _ i H T _ hSees (localJ_of_valid_cons hg.valid) ?_)
      intro _ hf'
      have hel := hsrc hf'
      have hown'' : ∀ m ∈ a.store.vcs, m.c.sender = mySig a.cfg → m.c.header.mtype = tVC ∧
          ∀ p, m.c.header.proof = some p → p.pRef.hash = p.ppRef.hash ∧ p.ppRef.view < m.c.header.view
            ∧ Ev.com i p.ppRef.view p.ppRef.hash ∈ H := by
        intro m hm hmine
        obtain ⟨o1, o2⟩ := hc.ownvc m hm hmine
        exact ⟨o1, fun p hp => let ⟨q1, q2, q3⟩ := o2 p hp; ⟨q1, q2, mem_H_of_T hc.sees q3⟩⟩
      have := newViewJust_of_elected C hwf H hv i hhon hmem a hc.cfg hua.vcs hua.clean hc.adm hc.vcb hown'' ppm.c.header.hash hel
      rw [hv']; exact this
  | voteSend vc rcpt hv' hp hpv hown =>
    constructor
    · exact core_step hc rfl hg (sees_cons hc.sees _) (fun _ h => List.mem_cons_of_mem _ h)
        (hc.adm.mono (fun _ h => List.mem_cons_of_mem _ h)) rfl hc.prepBlock
    · exact .cons hv (C01Local.justified_of_local _ i H T _ hSees (localJ_of_valid_cons hg.valid) trivial)
  | voteStore vc hv' hp hown hpv hbk =>
    have hsub : ∀ x ∈ H, x ∈ Ev.vote i a.view (pfOf vc.c.header.proof) :: H := fun _ h => List.mem_cons_of_mem _ h
    have hpay := vote_payload hc.ginv hc.prepBlock
    constructor
    · refine ⟨hc.cfg, hg, sees_cons hc.sees _, ?_, ?_, ?_, prep_of_apply (.vc vc) hc.prepBlock⟩
      · have hown' : AdmOp C (Ev.vote i a.view (pfOf vc.c.header.proof) :: H) (.vc vc) := by
          constructor
          · intro _ _ _ _ _
            show Ev.vote vc.c.sender.id vc.c.header.view _ ∈ _
            rw [hown.1, mySig_id, hme, hv']; exact List.mem_cons_self ..
          · intro p hpp
            rcases hpay with ⟨_, hn, _⟩ | ⟨pv, p', b', ppm, _, hx, hs, _⟩
            · rw [hp, hn] at hpp; cases hpp
            · rw [hp, hs] at hpp
              have : p' = p := Option.some.inj hpp
              subst this
              exact (extractProof_adm C H i a hc.cfg hua.proposals hua.prepares hua.clean hc.adm pv p' b' hx).mono hsub
        exact storeAdm_apply C _ (hc.adm.mono hsub) hown'
      · intro x hx
        rcases mem_storeVC hx with hx | rfl
        · exact hc.vcb x hx
        · rcases hpay with ⟨_, hn, hnb⟩ | ⟨pv, p', b', ppm, _, _, hs, hsb, hbs, _⟩
          · rw [hp, hbk, hn, hnb]; rfl
          · rw [hp, hbk, hs, hsb, hbs]; rfl
      · intro x hx hmine
        rcases mem_storeVC hx with hx | rfl
        · obtain ⟨o1, o2⟩ := hc.ownvc x hx hmine
          exact ⟨o1, fun p hp' => let ⟨q1, q2, q3⟩ := o2 p hp'; ⟨q1, q2, List.mem_cons_of_mem _ q3⟩⟩
        · refine ⟨hown.2.2.2, ?_⟩
          intro p hpp
          rcases hpay with ⟨_, hn, _⟩ | ⟨pv, p', b', ppm, hprep, _, hs, _, _, _, e1, e2, e3, hcom⟩
          · rw [hp, hn] at hpp; cases hpp
          · rw [hp, hs] at hpp
            have : p' = p := Option.some.inj hpp
            subst this
            refine ⟨by rw [e3, e2], ?_, ?_⟩
            · rw [e1, hv']; exact hpv pv hprep
            · rw [e1, e2]; exact List.mem_cons_of_mem _ hcom
    · exact .cons hv (C01Local.justified_of_local _ i H T _ hSees (localJ_of_valid_cons hg.valid) trivial)

/-! ## whatever a correct member sends is admissible -/

/-- **every message an atomic block sends is admissible with respect to the history after the block**:
the member's own signatures in it cover statements the block has just made (or made earlier), and
every other signature in it was admissible when it was logged — so the network model never forbids
delivering a correct member's message to another correct member -/
theorem blk_sends_adm (hwf : WF C) {e : Event} {spi0 : List Spi} {i : Nat} {a b : Node} {l : List Out} {g : List LEv} {T : List LEv} {H : List Ev}
    (hb : Blk e spi0 a b l g) (hc : Core C H i a T) (hua : Univ a) :
    ∀ rcpt m, Out.send rcpt m ∈ l → AdmMsg C ((g.map (lift i)).reverse ++ H) m := by
  have hme : a.cfg.me = i := by rw [hc.cfg]; rfl
  intro rcpt m hm
  cases hb with
  | quiet hq hs hl =>
    have := hl _ hm
    cases m <;> simp [stmtOf] at this
  | log op he => cases hm
  | accept ppm f rcpt' hh hv' hnone hnl hlock hsrc hval =>
    simp only [List.mem_singleton, Out.send.injEq] at hm
    obtain ⟨_, rfl⟩ := hm
    intro _ _
    refine ⟨fun _ _ _ => ?_, fun hc' => absurd hc' tP_ne_tC⟩
    show Ev.acc (mySig a.cfg).id _ _ ∈ _
    rw [mySig_id, hme]; exact List.mem_cons_self ..
  | prepared v hash rcpt' hv' hnot hpp hproof =>
    simp only [List.mem_singleton, Out.send.injEq] at hm
    obtain ⟨_, rfl⟩ := hm
    intro _ _
    refine ⟨fun ht => ?_, fun _ _ _ => ?_⟩
    · rcases ht with ht | ht
      · exact absurd ht.symm tPP_ne_tC
      · exact absurd ht.symm tP_ne_tC
    · left
      show Ev.com (mySig a.cfg).id _ _ ∈ _
      rw [mySig_id, hme]; exact List.mem_cons_self ..
  | late h v hash rcpt' hq =>
    simp only [List.mem_singleton, Out.send.injEq] at hm
    obtain ⟨_, rfl⟩ := hm
    intro _ _
    refine ⟨fun ht => ?_, fun _ _ _ => ?_⟩
    · rcases ht with ht | ht
      · exact absurd ht.symm tPP_ne_tC
      · exact absurd ht.symm tP_ne_tC
    · right
      show Ev.lcom (mySig a.cfg).id _ _ ∈ _
      rw [mySig_id, hme]; exact List.mem_cons_self ..
  | decide blk cs h v hash hq hs hcs hcq hpp => simp at hm
  | propose ppm f o hh hv' hnone hlnv hf ho hown hsrc hreq hblk hmsg =>
    simp only [List.mem_singleton] at hm
    have hownAdm : AdmRef C (Ev.acc i ppm.c.header.view ppm.c.header.hash :: H) ppm.c.header ppm.c.sender := by
      intro _ _
      refine ⟨fun _ _ _ => ?_, fun hc' => ?_⟩
      · show Ev.acc ppm.c.sender.id _ _ ∈ _
        rw [hown.1, mySig_id, hme]; exact List.mem_cons_self ..
      · rw [hown.2.2] at hc'; exact absurd hc' tPP_ne_tC
    rcases hmsg with ⟨r', ho'⟩ | ⟨r', nvm, h', ho', hpp, hvotes, _⟩
    · rw [ho'] at hm
      simp only [Out.send.injEq] at hm
      obtain ⟨_, rfl⟩ := hm
      exact hownAdm
    · rw [ho'] at hm
      simp only [Out.send.injEq] at hm
      obtain ⟨_, rfl⟩ := hm
      refine ⟨by rw [hpp]; exact hownAdm, ?_⟩
      intro c hcm
      rw [hvotes, List.mem_map] at hcm
      obtain ⟨x, hx, rfl⟩ := hcm
      unfold Store.getVCs at hx
      rw [List.mem_filter] at hx
      exact (hc.adm.vcs x hx.1).mono (fun _ h => List.mem_cons_of_mem _ h)
  | voteSend vc rcpt' hv' hp hpv hown =>
    simp only [List.mem_singleton, Out.send.injEq] at hm
    obtain ⟨_, rfl⟩ := hm
    constructor
    · intro _ _ _ _ _
      show Ev.vote vc.c.sender.id vc.c.header.view _ ∈ _
      rw [hown.1, mySig_id, hme, hv']; exact List.mem_cons_self ..
    · intro p hpp
      rcases vote_payload hc.ginv hc.prepBlock with ⟨_, hn, _⟩ | ⟨pv, p', b', ppm, _, hx, hs, _⟩
      · rw [hp, hn] at hpp; cases hpp
      · rw [hp, hs] at hpp
        have : p' = p := Option.some.inj hpp
        subst this
        exact (extractProof_adm C H i a hc.cfg hua.proposals hua.prepares hua.clean hc.adm pv p' b' hx).mono
          (fun _ h => List.mem_cons_of_mem _ h)
  | voteStore vc hv' hp hown hpv hbk => cases hm

/-! ## where an accepted hash comes from -/

/-- the hash of the proposal a delivery carries -/
def evPropHash : Event → Option Nat
  | .deliver (.preprepare m) => some m.c.header.hash
  | .deliver (.newView m) => some m.pp.header.hash
  | _ => none

/-- the consumer of the member taking a step approved hash `h` in that step: the step's SPI answers
begin with a positive `ValidateBlockProposal` verdict and the delivered message proposes `h`, or they
begin with the block its own `RequestNewBlockProposal` returned, whose hash is `h` -/
def ApprovedStep (e : Event) (spi : List Spi) (h : Nat) : Prop :=
  (∃ cd rest, spi = Spi.verdict true cd :: rest ∧ evPropHash e = some h)
  ∨ (∃ b cd rest, spi = Spi.proposal b cd :: rest ∧ b.hash = h)

/-- **an accepted hash was approved by the accepting member's own consumer in this very step, or was
certified in an earlier view** -/
theorem blk_origin (hwf : WF C) {e : Event} {spi0 : List Spi} {i : Nat} {a b : Node} {l : List Out} {g : List LEv} {T : List LEv} {H : List Ev}
    (hb : Blk e spi0 a b l g) (hgate : Gate (C.cfg i) e) (hae : AdmEvent C H e)
    (hc : Core C H i a T) (hv : Valid (setting C hwf) H) (hua : Univ a) :
    ∀ v h f, LEv.acc v h f ∈ g → ApprovedStep e spi0 h ∨ Locked (setting C hwf) H v h := by
  intro v h f hm
  cases hb with
  | quiet hq hs hl => cases hm
  | log op he => cases hm
  | prepared v' hash rcpt hv' hnot hpp hproof => simp at hm
  | late h' v' hash rcpt hq => simp at hm
  | decide blk cs h' v' hash hq hs hcs hcq hpp => simp at hm
  | voteSend vc rcpt hv' hp hpv hown => simp at hm
  | voteStore vc hv' hp hown hpv hbk => simp at hm
  | accept ppm f' rcpt hh hv' hnone hnl hlock hsrc hval =>
    simp only [List.mem_singleton, LEv.acc.injEq] at hm
    obtain ⟨rfl, rfl, rfl⟩ := hm
    rcases hsrc with ⟨he, hf⟩ | ⟨nvm, he, hppm, hf, hchk⟩
    · obtain ⟨cd, rest, hspi⟩ := hval (Or.inl hf)
      left; left
      exact ⟨cd, rest, hspi, by rw [he]; rfl⟩
    · cases hlv : latestVote nvm.header.votes with
      | none =>
        obtain ⟨cd, rest, hspi⟩ := hval (Or.inr ⟨nvm, he, hlv⟩)
        left; left
        exact ⟨cd, rest, hspi, by rw [he, hppm]; rfl⟩
      | some lv =>
        right
        subst he
        rw [hc.cfg] at hchk
        have := locked_of_checked C hwf H i nvm hchk hae.2 lv hlv
        rw [hppm]
        show Locked _ H nvm.pp.header.view nvm.pp.header.hash
        rw [hchk.2.1]; exact this
  | propose ppm f' o hh hv' hnone hlnv hf ho hown hsrc hreq hblk hmsg =>
    simp only [List.mem_singleton, LEv.acc.injEq] at hm
    obtain ⟨rfl, rfl, rfl⟩ := hm
    cases f with
    | false =>
      obtain ⟨b', cd, rest, hspi, hh'⟩ := hreq rfl
      left; right
      exact ⟨b', cd, rest, hspi, hh'.symm⟩
    | true =>
      obtain ⟨h', _, hcase⟩ := hsrc rfl
      rcases hcase with ⟨b', hsome⟩ | ⟨_, b', cd, rest, hspi, hh'⟩
      · right
        have hown'' : ∀ m ∈ a.store.vcs, m.c.sender = mySig a.cfg → m.c.header.mtype = tVC ∧
            ∀ p, m.c.header.proof = some p → p.pRef.hash = p.ppRef.hash ∧ p.ppRef.view < m.c.header.view
              ∧ Ev.com i p.ppRef.view p.ppRef.hash ∈ H := by
          intro m hm hmine
          obtain ⟨o1, o2⟩ := hc.ownvc m hm hmine
          exact ⟨o1, fun p hp => let ⟨q1, q2, q3⟩ := o2 p hp; ⟨q1, q2, mem_H_of_T hc.sees q3⟩⟩
        have := locked_of_elected C hwf H hv i a hc.cfg hua.vcs hc.adm hc.vcb hown'' h' b' ppm.c.header.hash hsome
        rw [hv']; exact this
      · left; right
        exact ⟨b', cd, rest, hspi, hh'.symm⟩

end LeanHelix.Net
