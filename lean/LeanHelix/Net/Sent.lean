import LeanHelix.Net.Reach
import LeanHelix.Props.C05Accept
import LeanHelix.Lemmas.QuorumNil
/-!
# The network model, part 6: what a member has emitted about its own position

`Sent n outs`: a node that is prepared in view `pv` holds that view's proposal, has logged its own
COMMIT for it and has sent that COMMIT; every NEW_VIEW and every PREPREPARE among its effects is its
stored proposal of that view.  Invariant of every atomic block (`blk_sent`), hence of every reachable
state of the network (`reach_sent`) — no assumption about the consumer or the adversary is involved.
Used by the liveness composition (`Props/C05Net.lean`) to read the leader's state off "it sent this NEW_VIEW".
-/
namespace LeanHelix.Net
open LeanHelix LeanHelix.Msg LeanHelix.Term

/-- `blk` is the block of a stored proposal of some (h, v) whose hash is the hash of the certificate `cs`,
and `cs` is a non-empty list of COMMITs for exactly (h, v, that hash) -/
def HasProposal (n : Node) (blk : Block) (cs : List CMsg) : Prop :=
  ∃ h v ppm, n.store.getPP h v = some ppm ∧ ppm.block = some blk ∧ ppm.c.header.hash = commitHash cs
    ∧ cs ≠ [] ∧ ∀ c ∈ cs, c.header.height = h ∧ c.header.view = v ∧ c.header.hash = commitHash cs

/-- the shape of a NEW_VIEW built by the member with configuration `c` -/
def NVOwn (c : Cfg) (nv : NVMsg) : Prop :=
  nv.header.mtype = tNV ∧ nv.header.inst = c.inst ∧ nv.header.height = c.height ∧ nv.sender = mySig c
  ∧ nv.pp.sender = nv.sender ∧ nv.pp.header.mtype = tPP ∧ nv.pp.header.inst = c.inst
  ∧ nv.pp.header.height = c.height ∧ nv.pp.header.view = nv.header.view
  ∧ isLeader c c.me nv.header.view = true ∧ ∃ b, nv.block = some b

structure Sent (n : Node) (outs : List Out) : Prop where
  prepared : ∀ pv, n.prepared = some pv → ∃ ppm, n.store.getPP n.cfg.height pv = some ppm
      ∧ C03.ckey (ownCommit n.cfg n.cfg.height pv ppm.c.header.hash) ∈ n.store.commits.map C03.ckey
      ∧ ∃ rs, Out.send rs (.commit (ownCommit n.cfg n.cfg.height pv ppm.c.header.hash)) ∈ outs
  newViews : ∀ rs nv, Out.send rs (.newView nv) ∈ outs → n.store.getPP n.cfg.height nv.header.view = some ⟨nv.pp, nv.block⟩
  preprepares : ∀ rs ppm, Out.send rs (.preprepare ppm) ∈ outs → n.store.getPP n.cfg.height ppm.c.header.view = some ppm
  /-- every block handed to the commit callback is the block of a stored proposal, whose signed hash, height
  and view are those of every COMMIT of the (non-empty) certificate handed over with it -/
  commits : ∀ blk cs, Out.commit blk cs ∈ outs → HasProposal n blk cs
  /-- every NEW_VIEW among the effects has the shape `onElectedByViewChange` gives it: this instance and
  height, signed by this member — which leads the NEW_VIEW's view —, the embedded proposal signed by
  the same member, PREPREPARE-typed, for the same view, and with a block -/
  nvShape : ∀ rs nv, Out.send rs (.newView nv) ∈ outs → NVOwn n.cfg nv

theorem sent_init (c : Cfg) : Sent { cfg := c } [] where
  prepared := by intro _ h; cases h
  newViews := by intro _ _ h; cases h
  preprepares := by intro _ _ h; cases h
  commits := by intro _ _ h; cases h
  nvShape := by intro _ _ h; cases h

theorem getPP_of_prefix {s t : Store} (hp : s.pps <+: t.pps) {h v : Nat} {p : PPMsg} (hg : s.getPP h v = some p) :
    t.getPP h v = some p := by
  obtain ⟨r, hr⟩ := hp
  unfold Store.getPP at hg ⊢
  rw [← hr, List.find?_append, hg]; rfl

theorem ckey_of_prefix {s t : Store} (hp : s.commits <+: t.commits) {k : Nat × Nat × Nat × Nat}
    (hk : k ∈ s.commits.map C03.ckey) : k ∈ t.commits.map C03.ckey := by
  obtain ⟨x, hx, rfl⟩ := List.mem_map.mp hk
  exact List.mem_map.mpr ⟨x, hp.subset hx, rfl⟩

/-- a block that changes neither the prepared view nor the configuration, only extends the log, and
emits neither NEW_VIEW nor PREPREPARE keeps `Sent` -/
theorem sent_extend (a b : Node) {outs0 l : List Out} (hc : b.cfg = a.cfg) (hp : b.prepared = a.prepared)
    (hle : StoreLe a.store b.store)
    (hnv : ∀ rs nv, Out.send rs (.newView nv) ∉ l) (hpp : ∀ rs ppm, Out.send rs (.preprepare ppm) ∉ l)
    (hcm : ∀ blk cs, Out.commit blk cs ∈ l → HasProposal b blk cs)
    (h : Sent a outs0) : Sent b (outs0 ++ l) where
  nvShape := by
    intro rs nv hm
    rcases List.mem_append.mp hm with hm | hm
    · rw [hc]; exact h.nvShape rs nv hm
    · exact absurd hm (hnv rs nv)
  commits := by
    intro blk cs hm
    rcases List.mem_append.mp hm with hm | hm
    · obtain ⟨h', v, ppm, hg, r⟩ := h.commits blk cs hm
      exact ⟨h', v, ppm, getPP_of_prefix hle.pps hg, r⟩
    · exact hcm blk cs hm
  prepared := by
    intro pv hpv
    rw [hp] at hpv
    obtain ⟨ppm, hg, hk, rs, hs⟩ := h.prepared pv hpv
    rw [hc]
    exact ⟨ppm, getPP_of_prefix hle.pps hg, ckey_of_prefix hle.commits hk, rs, List.mem_append_left _ hs⟩
  newViews := by
    intro rs nv hm
    rcases List.mem_append.mp hm with hm | hm
    · rw [hc]; exact getPP_of_prefix hle.pps (h.newViews rs nv hm)
    · exact absurd hm (hnv rs nv)
  preprepares := by
    intro rs ppm hm
    rcases List.mem_append.mp hm with hm | hm
    · rw [hc]; exact getPP_of_prefix hle.pps (h.preprepares rs ppm hm)
    · exact absurd hm (hpp rs ppm)

theorem blk_sent {e : Event} {spi0 : List Spi} {a b : Node} {l : List Out} {g : List LEv} {outs0 : List Out}
    (hb : Blk e spi0 a b l g) (h : Sent a outs0) : Sent b (outs0 ++ l) := by
  have hle := blk_storeLe hb
  have hcfg := C01Local.blk_cfg hb
  cases hb with
  | quiet hq hs hl =>
    refine sent_extend a _ hq.cfg hq.prepared hle ?_ ?_ ?_ h
    · intro rs nv hm; have := hl _ hm; simp [stmtOf] at this
    · intro rs ppm hm; have := hl _ hm; simp [stmtOf] at this
    · intro blk cs hm; have := hl _ hm; simp [stmtOf] at this
  | log op he => exact sent_extend a _ rfl rfl hle (fun _ _ hm => by cases hm) (fun _ _ hm => by cases hm) (fun _ _ hm => by cases hm) h
  | accept ppm f rcpt => exact sent_extend a _ rfl rfl hle (fun _ _ hm => by simp at hm) (fun _ _ hm => by simp at hm) (fun _ _ hm => by simp at hm) h
  | late h' v hash rcpt hq => exact sent_extend a _ rfl rfl hle (fun _ _ hm => by simp at hm) (fun _ _ hm => by simp at hm) (fun _ _ hm => by simp at hm) h
  | voteSend vc rcpt => exact sent_extend a _ rfl rfl hle (fun _ _ hm => by simp at hm) (fun _ _ hm => by simp at hm) (fun _ _ hm => by simp at hm) h
  | voteStore vc => exact sent_extend a _ rfl rfl hle (fun _ _ hm => by cases hm) (fun _ _ hm => by cases hm) (fun _ _ hm => by cases hm) h
  | decide blk cs h' v hash hq hs hcs hcq hpp =>
    refine sent_extend a _ hq.cfg hq.prepared hle (fun _ _ hm => by simp at hm) (fun _ _ hm => by simp at hm) ?_ h
    intro blk' cs' hm
    simp only [List.mem_singleton, Out.commit.injEq] at hm
    obtain ⟨ppm, hg, hblk, hhash⟩ := hpp
    have hne : cs ≠ [] := by
      intro he
      rw [he] at hcq
      simp [isQuorum_nil] at hcq
    have hall : ∀ c ∈ cs, c.header.height = h' ∧ c.header.view = v ∧ c.header.hash = hash := by
      intro c hc
      rw [hcs] at hc
      exact (mem_getCommits_all hc).2
    have hch : commitHash cs = hash := by
      cases hcons : cs with
      | nil => exact absurd hcons hne
      | cons c rest => exact (hall c (by rw [hcons]; exact List.mem_cons_self ..)).2.2
    rw [hm.1, hm.2]
    refine ⟨h', v, ppm, by rw [hs]; exact hg, hblk, by rw [hch]; exact hhash, hne, ?_⟩
    intro c hc
    rw [hch]; exact hall c hc
  | prepared v hash rcpt hv hnot hpp hproof =>
    obtain ⟨ppm, hg, hh, _⟩ := hpp
    refine ⟨?_, ?_, ?_, ?_, ?_⟩
    · intro pv hpv
      have : pv = v := by
        have : (preparedNode a v hash).prepared = some v := rfl
        rw [this] at hpv; exact (Option.some.inj hpv).symm
      subst this
      refine ⟨ppm, getPP_of_prefix hle.pps hg, ?_, rcpt, ?_⟩
      · rw [hh]; exact C11.storeCommit_has_key _ _
      · rw [hh]; exact List.mem_append_right _ List.mem_cons_self
    · intro rs nv hm
      rcases List.mem_append.mp hm with hm | hm
      · exact getPP_of_prefix hle.pps (h.newViews rs nv hm)
      · simp at hm
    · intro rs p hm
      rcases List.mem_append.mp hm with hm | hm
      · exact getPP_of_prefix hle.pps (h.preprepares rs p hm)
      · simp at hm
    · intro blk cs hm
      rcases List.mem_append.mp hm with hm | hm
      · obtain ⟨h', v', p0, hg0, r⟩ := h.commits blk cs hm
        exact ⟨h', v', p0, getPP_of_prefix hle.pps hg0, r⟩
      · simp at hm
    · intro rs nv hm
      rcases List.mem_append.mp hm with hm | hm
      · exact h.nvShape rs nv hm
      · simp at hm
  | propose ppm f o hh hv hnone hlnv hf ho hown hsrc hreq hblk hmsg =>
    have hnew : ({ a with store := a.store.storePP ppm } : Node).store.getPP a.cfg.height a.view = some ppm := by
      have := C05.storePP_getPP_new a.store ppm (by rw [hh, hv]; exact hnone)
      rw [hh, hv] at this; exact this
    refine ⟨?_, ?_, ?_, ?_, ?_⟩
    · intro pv hpv
      obtain ⟨p0, hg, hk, rs, hs⟩ := h.prepared pv hpv
      exact ⟨p0, getPP_of_prefix hle.pps hg, ckey_of_prefix hle.commits hk, rs, List.mem_append_left _ hs⟩
    · intro rs nv hm
      rcases List.mem_append.mp hm with hm | hm
      · exact getPP_of_prefix hle.pps (h.newViews rs nv hm)
      · simp only [List.mem_singleton] at hm
        rcases hmsg with ⟨rcpt, ho'⟩ | ⟨rcpt, nvm, h', ho', _, _, hexact, _⟩
        · rw [ho'] at hm; cases hm
        · rw [ho'] at hm
          simp only [Out.send.injEq, Message.newView.injEq] at hm
          rw [hm.2, hexact]
          exact hnew
    · intro rs p hm
      rcases List.mem_append.mp hm with hm | hm
      · exact getPP_of_prefix hle.pps (h.preprepares rs p hm)
      · simp only [List.mem_singleton] at hm
        rcases hmsg with ⟨rcpt, ho'⟩ | ⟨rcpt, nvm, h', ho', _⟩
        · rw [ho'] at hm
          simp only [Out.send.injEq, Message.preprepare.injEq] at hm
          rw [hm.2, hv]
          exact hnew
        · rw [ho'] at hm; cases hm
    · intro blk cs hm
      rcases List.mem_append.mp hm with hm | hm
      · obtain ⟨h', v', p0, hg0, r⟩ := h.commits blk cs hm
        exact ⟨h', v', p0, getPP_of_prefix hle.pps hg0, r⟩
      · simp only [List.mem_singleton] at hm
        rcases hmsg with ⟨rcpt, ho'⟩ | ⟨rcpt, nvm, h', ho', _⟩ <;> (rw [ho'] at hm; cases hm)
    · intro rs nv hm
      rcases List.mem_append.mp hm with hm | hm
      · exact h.nvShape rs nv hm
      · simp only [List.mem_singleton] at hm
        rcases hmsg with ⟨rcpt, ho'⟩ | ⟨rcpt, nvm, h', ho', _, _, hexact, hlead, _, _⟩
        · rw [ho'] at hm; cases hm
        · rw [ho'] at hm
          simp only [Out.send.injEq, Message.newView.injEq] at hm
          obtain ⟨b0, hb0, _⟩ := hblk
          rw [hm.2, hexact]
          exact ⟨rfl, rfl, rfl, rfl, hown.1, hown.2.2, hown.2.1, hh, hv, hlead, b0, hb0⟩

theorem runs_sent {e : Event} {spi0 : List Spi} {w w' : Term.W} {g : List LEv} (hr : Runs e spi0 w w' g) :
    ∀ outs0, Sent w.n (outs0 ++ w.outs) → Sent w'.n (outs0 ++ w'.outs) := by
  induction hr with
  | refl => intro _ h; exact h
  | blk ho hb =>
    intro outs0 h
    rw [ho, ← List.append_assoc]
    exact blk_sent hb h
  | trans _ _ ih1 ih2 => intro outs0 h; exact ih2 outs0 (ih1 outs0 h)

variable {C : NetCfg}

/-- **in every reachable state every member's effects and position agree** -/
theorem reach_sent {net : Net} (hr : Reach C net) (i : Nat) : Sent (net.node i) (net.outs i) := by
  induction hr with
  | init => exact sent_init _
  | @step net _ _ hs ih =>
    have common : ∀ (j : Nat) (e : Event) (spi : List Spi) (w' : Term.W) (g : List LEv),
        Runs e spi { n := net.node j, spi := spi } w' g →
        Sent (upd net.node j w'.n i) (upd net.outs j (net.outs j ++ w'.outs) i) := by
      intro j e spi w' g hruns
      by_cases hij : i = j
      · subst hij
        rw [upd_same, upd_same]
        exact runs_sent hruns (net.outs i) (by simpa using ih)
      · rw [upd_other _ _ hij, upd_other _ _ hij]; exact ih
    cases hs with
    | start j first spi w' g hh hm hs hr hst => exact common j _ spi w' g hr
    | event j e spi w' g hh hm hs hns hg ha hr hst => exact common j e spi w' g hr

end LeanHelix.Net
