import LeanHelix.Net.Adm
/-!
# The network model, part 2: the certificates a node checks are certificates of the abstract layer

What the term model's checks establish (`validatePreparedProof`, `isViewChangeValid`,
`validateVotes`, `lockOk`, quorums over the message log) is turned into the certificate predicates of
`Spec/Safety.lean` (`validCert`, `commitQuorum`, `newViewJust`) using admissibility of the signatures
involved (`Net/Adm.lean`).
-/
namespace LeanHelix.Net
open LeanHelix LeanHelix.Msg LeanHelix.Term LeanHelix.Spec

variable (C : NetCfg)

theorem contains_mem {l : List Nat} {x : Nat} (h : l.contains x = true) : x ∈ l := by
  simpa using h

theorem mem_contains {l : List Nat} {x : Nat} (h : x ∈ l) : l.contains x = true := by
  simpa using h

/-- a prepared proof that passes `validatePreparedProof` (and the type / instance checks of
`isViewChangeValid`) and whose signatures are admissible is a prepared certificate of the abstract layer -/
theorem validCert_of_proof (hwf : WF C) (H : List Ev) (i : Nat) (p : Proof) (tv : Nat)
    (hv : validatePreparedProof (C.cfg i) C.height tv (some p) = true)
    (ht : p.ppRef.mtype = tPP ∧ p.pRef.mtype = tP ∧ p.ppRef.inst = C.inst ∧ p.pRef.inst = C.inst)
    (ha : AdmProof C H p) :
    p.ppRef.view < tv ∧ validCert (setting C hwf) H p.ppRef.view p.ppRef.hash := by
  unfold validatePreparedProof at hv
  simp only [Bool.and_eq_true, beq_iff_eq, decide_eq_true_eq, List.all_eq_true, bne_iff_ne] at hv
  obtain ⟨⟨⟨⟨⟨⟨⟨⟨⟨h1, h2⟩, h3⟩, h4⟩, h5⟩, h6⟩, h7⟩, h8⟩, h9⟩, h10⟩ := hv
  refine ⟨h2, fun x => (p.pSenders.map (·.id) ++ [p.ppSender.id]).contains x, quorum_wt (C.cfg i) hwf.fit _ h3, ?_⟩
  intro m hm hP hh
  have hmem := contains_mem hP
  rw [List.mem_append, List.mem_map, List.mem_singleton] at hmem
  rcases hmem with ⟨s, hs, hsid⟩ | hpp
  · have h9s := h9 s hs
    have hadm := (ha.2 s hs) ht.2.2.2 (by rw [h7]; exact h1)
    have := hadm.1 (Or.inr ht.2.1) h9s.1.1 (by rw [hsid]; exact hh)
    rw [hsid, h8, h6] at this
    exact this
  · have hadm := ha.1 ht.2.2.1 h1
    have := hadm.1 (Or.inl ht.1) h4 (by rw [← hpp]; exact hh)
    rw [← hpp] at this
    exact this

/-- a quorum of logged COMMITs for (h, v, hash) is a commit quorum of the abstract layer -/
theorem commitQuorum_of_store (hwf : WF C) (H : List Ev) (i : Nat) (a : Node) (hcfg : a.cfg = C.cfg i)
    (hco : C03.CommitsOK a) (hcl : LogClean a) (hadm : StoreAdm C H a) (h v hash : Nat)
    (hq : isQuorum a.cfg ((a.store.getCommits h v hash).map (·.sender.id)) = true) :
    commitQuorum (setting C hwf) H v hash := by
  refine ⟨fun x => ((a.store.getCommits h v hash).map (·.sender.id)).contains x, ?_, ?_⟩
  · have := quorum_wt a.cfg (by rw [hcfg]; exact hwf.fit) _ hq
    have hms : a.cfg.members = C.ms := by rw [hcfg]; rfl
    rw [hms] at this; exact this
  · intro m hm hP hh
    have hmem := contains_mem hP
    rw [List.mem_map] at hmem
    obtain ⟨cm, hcm, hid⟩ := hmem
    unfold Store.getCommits at hcm
    rw [List.mem_filter] at hcm
    obtain ⟨hin, hk⟩ := hcm
    simp only [Bool.and_eq_true, beq_iff_eq] at hk
    obtain ⟨_, ht, _, hok⟩ := hco.auth cm hin
    obtain ⟨hi, hh'⟩ := hcl.commits cm hin
    have := ((hadm.commits cm hin) (by rw [hi, hcfg]; rfl) (by rw [hh', hcfg]; rfl)).2 ht hok (by rw [hid]; exact hh)
    rw [hid, hk.1.2, hk.2] at this
    exact this

/-- the stored proposal of view `v` together with the logged PREPAREs for its hash, when they reach
quorum (`extractProof` succeeds), is a prepared certificate of the abstract layer -/
theorem validCert_of_extract (hwf : WF C) (H : List Ev) (i : Nat) (a : Node) (hcfg : a.cfg = C.cfg i)
    (hpo : C04.ProposalsOK a) (hpr : C11.PreparesOK a) (hcl : LogClean a) (hadm : StoreAdm C H a)
    (v : Nat) (hproof : (extractProof a v).isSome = true) :
    ∃ ppm, a.store.getPP a.cfg.height v = some ppm ∧ validCert (setting C hwf) H v ppm.c.header.hash := by
  obtain ⟨ppm, hg, hq, _⟩ := C01Local.extractProof_cond a v hproof
  refine ⟨ppm, hg, fun x => ((a.store.getPrepares a.cfg.height v ppm.c.header.hash).map (·.sender.id) ++ [ppm.c.sender.id]).contains x, ?_, ?_⟩
  · have := quorum_wt a.cfg (by rw [hcfg]; exact hwf.fit) _ hq
    have hms : a.cfg.members = C.ms := by rw [hcfg]; rfl
    rw [hms] at this; exact this
  · intro m hm hP hh
    have hmem := contains_mem hP
    rw [List.mem_append, List.mem_map, List.mem_singleton] at hmem
    obtain ⟨hppin, _, hppv⟩ := getPP_spec hg
    rcases hmem with ⟨x, hx, hid⟩ | hpp
    · unfold Store.getPrepares at hx
      rw [List.mem_filter] at hx
      obtain ⟨hin, hk⟩ := hx
      simp only [Bool.and_eq_true, beq_iff_eq] at hk
      obtain ⟨ht, _, hok, _⟩ := hpr.auth x hin
      obtain ⟨hi, hh'⟩ := hcl.prepares x hin
      have := ((hadm.prepares x hin) (by rw [hi, hcfg]; rfl) (by rw [hh', hcfg]; rfl)).1 (Or.inr ht) hok (by rw [hid]; exact hh)
      rw [hid, hk.1.2, hk.2] at this
      exact this
    · obtain ⟨ht, _, hok⟩ := hpo ppm hppin
      have hok' : ppm.c.sender.ok = true := by
        rcases hok with h | h
        · exact h
        · rw [h]; rfl
      obtain ⟨hi, hh'⟩ := hcl.pps ppm hppin
      have := ((hadm.pps ppm hppin) (by rw [hi, hcfg]; rfl) (by rw [hh', hcfg]; rfl)).1 (Or.inl ht) hok' (by rw [← hpp]; exact hh)
      rw [← hpp, hppv] at this
      exact this

theorem tPP_ne_tC : tPP ≠ tC := by decide
theorem tP_ne_tC : tP ≠ tC := by decide

/-- the exact shape of an extracted proof -/
theorem extractProof_shape (n : Node) (pv : Nat) (p : Proof) (b : Option Block) (h : extractProof n pv = some (p, b)) :
    ∃ ppm p0, n.store.getPP n.cfg.height pv = some ppm
      ∧ p0 ∈ n.store.getPrepares n.cfg.height pv ppm.c.header.hash
      ∧ p.ppRef = ⟨tPP, ppm.c.header.inst, ppm.c.header.height, ppm.c.header.view, ppm.c.header.hash⟩
      ∧ p.ppSender = ppm.c.sender
      ∧ p.pRef = ⟨tP, p0.header.inst, p0.header.height, p0.header.view, p0.header.hash⟩
      ∧ p.pSenders = (n.store.getPrepares n.cfg.height pv ppm.c.header.hash).map (·.sender)
      ∧ b = ppm.block := by
  unfold extractProof at h
  cases hpp : n.store.getPP n.cfg.height pv with
  | none => simp [hpp] at h
  | some ppm =>
    simp only [hpp] at h
    split at h
    · cases h
    · split at h
      · cases h
      · split at h
        · cases h
        · rename_i p0 ps hps
          simp only [Option.some.injEq, Prod.mk.injEq] at h
          obtain ⟨rfl, rfl⟩ := h
          exact ⟨ppm, p0, rfl, by rw [hps]; exact List.mem_cons_self .., rfl, rfl, rfl, by rw [hps], rfl⟩

/-- the proof a node extracts from an admissible log is admissible -/
theorem extractProof_adm (H : List Ev) (i : Nat) (a : Node) (hcfg : a.cfg = C.cfg i)
    (hpo : C04.ProposalsOK a) (hpr : C11.PreparesOK a) (hcl : LogClean a) (hadm : StoreAdm C H a)
    (pv : Nat) (p : Proof) (b : Option Block) (h : extractProof a pv = some (p, b)) : AdmProof C H p := by
  obtain ⟨ppm, p0, hg, hp0, e1, e2, e3, e4, _⟩ := extractProof_shape a pv p b h
  obtain ⟨hppin, _, _⟩ := getPP_spec hg
  have key : ∀ x ∈ a.store.getPrepares a.cfg.height pv ppm.c.header.hash,
      x ∈ a.store.prepares ∧ x.header.height = a.cfg.height ∧ x.header.view = pv ∧ x.header.hash = ppm.c.header.hash := by
    intro x hx
    unfold Store.getPrepares at hx
    rw [List.mem_filter] at hx
    obtain ⟨hin, hk⟩ := hx
    simp only [Bool.and_eq_true, beq_iff_eq] at hk
    exact ⟨hin, hk.1.1, hk.1.2, hk.2⟩
  constructor
  · rw [e1, e2]
    intro h1 h2
    obtain ⟨ht, _, _⟩ := hpo ppm hppin
    have := (hadm.pps ppm hppin) h1 h2
    exact ⟨fun _ => this.1 (Or.inl ht), fun hc => absurd hc tPP_ne_tC⟩
  · intro s hs
    rw [e4, List.mem_map] at hs
    obtain ⟨x, hx, rfl⟩ := hs
    obtain ⟨hin, hxh, hxv, hxx⟩ := key x hx
    obtain ⟨h0in, h0h, h0v, h0x⟩ := key p0 hp0
    obtain ⟨ht, _, _, _⟩ := hpr.auth x hin
    obtain ⟨hxi, _⟩ := hcl.prepares x hin
    obtain ⟨h0i, _⟩ := hcl.prepares p0 h0in
    have hx_eq : x.header = ⟨tP, p0.header.inst, p0.header.height, p0.header.view, p0.header.hash⟩ := by
      cases hxhd : x.header with
      | mk t i' h' v' hh' =>
        rw [hxhd] at ht hxi hxh hxv hxx
        simp only at ht hxi hxh hxv hxx
        rw [ht, hxi, hxh, hxv, hxx, h0i, h0h, h0v, h0x]
    rw [e3, ← hx_eq]
    exact hadm.prepares x hin

/-! ## votes -/

theorem isViewChangeValid_spec (n : Node) (c : VCContent) (h : isViewChangeValid n c = true) :
    c.header.mtype = tVC ∧ c.header.inst = n.cfg.inst ∧ isMember n.cfg c.sender.id = true ∧ c.sender.ok = true
    ∧ (∀ p, c.header.proof = some p → p.ppRef.mtype = tPP ∧ p.pRef.mtype = tP ∧ p.ppRef.inst = n.cfg.inst ∧ p.pRef.inst = n.cfg.inst)
    ∧ validatePreparedProof n.cfg n.cfg.height c.header.view c.header.proof = true := by
  unfold isViewChangeValid at h
  simp only [Bool.and_eq_true, beq_iff_eq] at h
  obtain ⟨⟨⟨⟨⟨h1, h2⟩, h3⟩, h4⟩, h5⟩, h6⟩ := h
  refine ⟨h1, h2, h3, h4, ?_, h6⟩
  intro p hp
  rw [hp] at h5
  simp only [Bool.and_eq_true, beq_iff_eq] at h5
  exact ⟨h5.1.1.1, h5.1.1.2, h5.1.2, h5.2⟩

theorem isMember_spec (c : Cfg) (id : Nat) (h : isMember c id = true) : ∃ m ∈ c.members, m.id = id := by
  unfold isMember at h
  rw [List.any_eq_true] at h
  obtain ⟨m, hm, he⟩ := h
  exact ⟨m, hm, by simpa using he⟩

/-- the vote of member `id` in a list of votes -/
def voteOf (votes : List VCContent) (id : Nat) : Option VCContent := votes.find? (fun c => c.sender.id == id)

/-- what the vote of member `id` certifies -/
def pfFn (votes : List VCContent) (id : Nat) : Option (Nat × Nat) :=
  match voteOf votes id with
  | some c => pfOf c.header.proof
  | none => none

theorem voteOf_of_mem (votes : List VCContent) (hnd : (votes.map (·.sender.id)).Nodup) (c : VCContent) (hc : c ∈ votes) :
    voteOf votes c.sender.id = some c := by
  induction votes with
  | nil => cases hc
  | cons x xs ih =>
    unfold voteOf
    rw [List.find?_cons]
    simp only [List.map_cons, List.nodup_cons] at hnd
    by_cases hx : x.sender.id = c.sender.id
    · simp only [hx, beq_self_eq_true]
      rcases List.mem_cons.mp hc with rfl | hin
      · rfl
      · exfalso
        apply hnd.1
        rw [hx]
        exact List.mem_map.mpr ⟨c, hin, rfl⟩
    · have : (x.sender.id == c.sender.id) = false := by simpa using hx
      simp only [this]
      rcases List.mem_cons.mp hc with rfl | hin
      · exact absurd rfl hx
      · exact ih hnd.2 hin

theorem mem_votes_of_contains (votes : List VCContent) (id : Nat) (h : (votes.map (·.sender.id)).contains id = true) :
    ∃ c ∈ votes, c.sender.id = id := by
  have := contains_mem h
  rw [List.mem_map] at this
  exact this

theorem pfOf_some {p : Option Proof} {pv hp : Nat} (h : pfOf p = some (pv, hp)) :
    ∃ q, p = some q ∧ q.ppRef.view = pv ∧ q.ppRef.hash = hp := by
  cases p with
  | none => simp [pfOf] at h
  | some q =>
    simp only [pfOf, Option.map_some, Option.some.injEq, Prod.mk.injEq] at h
    exact ⟨q, rfl, h.1, h.2⟩

/-- **follower side**: what `handleNewView` checks (`NVChecked`), on a NEW_VIEW whose votes are
admissible, is a NEW_VIEW justification of the abstract layer for the embedded proposal's hash -/
theorem newViewJust_of_checked (hwf : WF C) (H : List Ev) (i : Nat) (nvm : NVMsg) (hh : nvm.header.height = C.height)
    (hchk : NVChecked (C.cfg i) nvm) (hadm : ∀ c ∈ nvm.header.votes, AdmVC C H c) :
    newViewJust (setting C hwf) H nvm.header.view nvm.pp.header.hash := by
  obtain ⟨hvv, _, _, _, hlock⟩ := hchk
  unfold validateVotes at hvv
  simp only [Bool.and_eq_true, List.all_eq_true, beq_iff_eq, decide_eq_true_eq] at hvv
  obtain ⟨⟨hq, hall⟩, hnd⟩ := hvv
  -- facts about one vote
  have vote_facts : ∀ c ∈ nvm.header.votes,
      c.header.height = C.height ∧ c.header.view = nvm.header.view ∧ c.header.mtype = tVC ∧ c.header.inst = C.inst
      ∧ c.sender.ok = true ∧ (∃ m ∈ C.ms, m.id = c.sender.id)
      ∧ (∀ p, c.header.proof = some p → p.ppRef.view < nvm.header.view ∧ validCert (setting C hwf) H p.ppRef.view p.ppRef.hash) := by
    intro c hc
    obtain ⟨⟨h1, h2⟩, h3⟩ := hall c hc
    obtain ⟨s1, s2, s3, s4, s5, s6⟩ := isViewChangeValid_spec _ c h3
    refine ⟨by rw [h1]; exact hh, h2, s1, s2, s4, isMember_spec _ _ s3, ?_⟩
    intro p hp
    rw [hp] at s6
    have := validCert_of_proof C hwf H i p c.header.view s6 (s5 p hp) ((hadm c hc).2 p hp)
    rw [h2] at this
    exact this
  have found : ∀ m : Member, (nvm.header.votes.map (·.sender.id)).contains m.id = true →
      ∃ c ∈ nvm.header.votes, c.sender.id = m.id ∧ pfFn nvm.header.votes m.id = pfOf c.header.proof := by
    intro m hV
    obtain ⟨c, hc, hid⟩ := mem_votes_of_contains _ _ hV
    refine ⟨c, hc, hid, ?_⟩
    unfold pfFn
    rw [← hid, voteOf_of_mem _ hnd c hc]
  have hQ := quorum_wt (C.cfg i) hwf.fit _ hq
  refine ⟨_, pfFn nvm.header.votes, hQ, ?_, ?_, ?_⟩
  · intro m _ hV hhon
    obtain ⟨c, hc, hid, hpf⟩ := found m hV
    obtain ⟨f1, f2, f3, f4, f5, _, _⟩ := vote_facts c hc
    have := (hadm c hc).1 f4 f1 f3 f5 (by rw [hid]; exact hhon)
    rw [hid, f2, ← hpf] at this
    exact this
  · intro m _ hV pv hp hpfm
    obtain ⟨c, hc, hid, hpf⟩ := found m hV
    rw [hpf] at hpfm
    obtain ⟨q, hq1, hq2, hq3⟩ := pfOf_some hpfm
    have := (vote_facts c hc).2.2.2.2.2.2 q hq1
    rw [hq2, hq3] at this
    exact this
  · unfold lockOk at hlock
    have sp := C07.maxBy_spec (fun (v : VCContent) => proofView v.header.proof) (nvm.header.votes.filter (fun v => v.header.proof.isSome))
    cases hlv : latestVote nvm.header.votes with
    | none =>
      left
      intro m _ hV
      obtain ⟨c, hc, hid, hpf⟩ := found m hV
      rw [hpf]
      have hnil := sp.1.mp hlv
      cases hp : c.header.proof with
      | none => rfl
      | some q =>
        exfalso
        have : c ∈ nvm.header.votes.filter (fun v => v.header.proof.isSome) := by
          rw [List.mem_filter]; exact ⟨hc, by rw [hp]; rfl⟩
        rw [hnil] at this; cases this
    | some lv =>
      right
      rw [hlv] at hlock
      simp only [Bool.and_eq_true, beq_iff_eq] at hlock
      obtain ⟨hmem, hmax⟩ := sp.2 lv hlv
      rw [List.mem_filter] at hmem
      obtain ⟨hlvin, hlvp⟩ := hmem
      obtain ⟨_, _, _, _, _, ⟨m0, hm0, hm0id⟩, _⟩ := vote_facts lv hlvin
      cases hp0 : lv.header.proof with
      | none => rw [hp0] at hlvp; cases hlvp
      | some p0 =>
        have hV0 : (nvm.header.votes.map (·.sender.id)).contains m0.id = true := by
          apply mem_contains; rw [hm0id]; exact List.mem_map.mpr ⟨lv, hlvin, rfl⟩
        refine ⟨m0, hm0, p0.ppRef.view, hV0, ?_, ?_⟩
        · unfold pfFn
          rw [hm0id, voteOf_of_mem _ hnd lv hlvin]
          show pfOf lv.header.proof = some (p0.ppRef.view, nvm.pp.header.hash)
          rw [hlock.2, hp0]
          rfl
        · intro m _ hV pv hp hpfm
          obtain ⟨c, hc, hid, hpf⟩ := found m hV
          rw [hpf] at hpfm
          obtain ⟨q, hq1, hq2, _⟩ := pfOf_some hpfm
          have hcf : c ∈ nvm.header.votes.filter (fun v => v.header.proof.isSome) := by
            rw [List.mem_filter]; exact ⟨hc, by rw [hq1]; rfl⟩
          have := hmax c hcf
          simp only [hq1, hp0, proofView] at this
          omega

theorem validatePreparedProof_hash (c : Cfg) (th tv : Nat) (p : Proof) (h : validatePreparedProof c th tv (some p) = true) :
    p.pRef.hash = p.ppRef.hash := by
  unfold validatePreparedProof at h
  simp only [Bool.and_eq_true, beq_iff_eq, decide_eq_true_eq] at h
  exact h.1.1.1.1.2

/-- within the votes logged for one (height, view) the sender ids are pairwise distinct -/
theorem getVCs_nodup (a : Node) (hvc : C11.VCsOK a) (h v : Nat) :
    (((a.store.getVCs h v).map (·.c)).map (·.sender.id)).Nodup := by
  have h1 : ((a.store.getVCs h v).map C11.vkey).Nodup := by
    unfold Store.getVCs
    exact List.Nodup.sublist (List.Sublist.map _ List.filter_sublist) hvc.keys
  rw [List.map_map]
  rw [List.Nodup, List.pairwise_map] at h1 ⊢
  refine List.Pairwise.imp_of_mem ?_ h1
  intro x y hx hy hne hid
  apply hne
  unfold Store.getVCs at hx hy
  rw [List.mem_filter] at hx hy
  simp only [Bool.and_eq_true, beq_iff_eq] at hx hy
  simp only [C11.vkey, Prod.mk.injEq]
  exact ⟨by rw [hx.2.1, hy.2.1], by rw [hx.2.2, hy.2.2], hid⟩

/-- **leader side**: when the logged votes for the node's view reach quorum and the proposed hash is
the one certified by a highest-view proof among them (or none carries a proof), the leader's own
proposal has a NEW_VIEW justification in the abstract layer -/
theorem newViewJust_of_elected (hwf : WF C) (H : List Ev) (hvalid : Valid (setting C hwf) H)
    (i : Nat) (hhon : C.honest i = true) (hmem : ∃ m ∈ C.ms, m.id = i)
    (a : Node) (hcfg : a.cfg = C.cfg i)
    (hvc : C11.VCsOK a) (hcl : LogClean a) (hadm : StoreAdm C H a)
    (hvb : ∀ m ∈ a.store.vcs, m.block.isSome = m.c.header.proof.isSome)
    (hown : ∀ m ∈ a.store.vcs, m.c.sender = mySig a.cfg → m.c.header.mtype = tVC ∧
        ∀ p, m.c.header.proof = some p → p.pRef.hash = p.ppRef.hash ∧ p.ppRef.view < m.c.header.view
          ∧ Ev.com i p.ppRef.view p.ppRef.hash ∈ H)
    {spi0 : List Spi} (hash : Nat) (hel : ElectedBy spi0 a hash) :
    newViewJust (setting C hwf) H a.view hash := by
  obtain ⟨h, hq, hlb⟩ := hel
  -- the logged votes for (h, a.view)
  have hne := isQuorum_ne_nil a.cfg (by rw [hcfg]; exact hwf.fit) _ hq
  have inStore : ∀ m ∈ a.store.getVCs h a.view, m ∈ a.store.vcs ∧ m.c.header.height = h ∧ m.c.header.view = a.view := by
    intro m hm
    unfold Store.getVCs at hm
    rw [List.mem_filter] at hm
    simp only [Bool.and_eq_true, beq_iff_eq] at hm
    exact ⟨hm.1, hm.2.1, hm.2.2⟩
  have hh : h = C.height := by
    cases hl : a.store.getVCs h a.view with
    | nil => rw [hl] at hne; exact absurd rfl hne
    | cons m rest =>
      obtain ⟨hin, hmh, _⟩ := inStore m (by rw [hl]; exact List.mem_cons_self ..)
      have := (hcl.vcs m hin).2
      rw [hcfg] at this
      rw [← hmh, this]; rfl
  have hnd := getVCs_nodup a hvc h a.view
  have hq' : isQuorum (C.cfg i) (((a.store.getVCs h a.view).map (·.c)).map (·.sender.id)) = true := by
    rw [List.map_map, ← hcfg]; exact hq
  have hQ := quorum_wt (C.cfg i) hwf.fit _ hq'
  -- facts about one vote
  have vote_facts : ∀ m ∈ a.store.getVCs h a.view,
      m.c.header.height = C.height ∧ m.c.header.view = a.view ∧ m.c.header.mtype = tVC ∧ m.c.header.inst = C.inst
      ∧ m.c.sender.ok = true ∧ (∃ x ∈ C.ms, x.id = m.c.sender.id) ∧ AdmVC C H m.c
      ∧ (∀ p, m.c.header.proof = some p → p.pRef.hash = p.ppRef.hash ∧ p.ppRef.view < a.view
            ∧ validCert (setting C hwf) H p.ppRef.view p.ppRef.hash) := by
    intro m hm
    obtain ⟨hin, hmh, hmv⟩ := inStore m hm
    have hinst : m.c.header.inst = C.inst := by have := (hcl.vcs m hin).1; rw [hcfg] at this; exact this
    rcases hvc.auth m hin with hchk | hmine
    · obtain ⟨s1, _, s3, s4, s5, s6⟩ := isViewChangeValid_spec a m.c hchk.1
      refine ⟨by rw [hmh]; exact hh, hmv, s1, hinst, s4, ?_, hadm.vcs m hin, ?_⟩
      · have := isMember_spec _ _ s3; rw [hcfg] at this; exact this
      · intro p hp
        rw [hp, hcfg] at s6
        have h5 := s5 p hp
        rw [hcfg] at h5
        have := validCert_of_proof C hwf H i p m.c.header.view s6 h5 ((hadm.vcs m hin).2 p hp)
        rw [hmv] at this
        exact ⟨validatePreparedProof_hash _ _ _ p s6, this.1, this.2⟩
    · obtain ⟨o1, o2⟩ := hown m hin hmine
      refine ⟨by rw [hmh]; exact hh, hmv, o1, hinst, by rw [hmine]; rfl, ?_, hadm.vcs m hin, ?_⟩
      · obtain ⟨x, hx, hxi⟩ := hmem
        exact ⟨x, hx, by rw [hmine, hcfg]; exact hxi⟩
      · intro p hp
        obtain ⟨q1, q2, q3⟩ := o2 p hp
        exact ⟨q1, by rw [← hmv]; exact q2, Spec.com_cert (setting C hwf) hvalid q3⟩
  have found : ∀ x : Member, (((a.store.getVCs h a.view).map (·.c)).map (·.sender.id)).contains x.id = true →
      ∃ m ∈ a.store.getVCs h a.view, m.c.sender.id = x.id ∧ pfFn ((a.store.getVCs h a.view).map (·.c)) x.id = pfOf m.c.header.proof := by
    intro x hV
    obtain ⟨c, hc, hid⟩ := mem_votes_of_contains _ _ hV
    rw [List.mem_map] at hc
    obtain ⟨m, hm, rfl⟩ := hc
    refine ⟨m, hm, hid, ?_⟩
    unfold pfFn
    rw [← hid, voteOf_of_mem _ hnd m.c (List.mem_map.mpr ⟨m, hm, rfl⟩)]
  refine ⟨_, pfFn ((a.store.getVCs h a.view).map (·.c)), hQ, ?_, ?_, ?_⟩
  · intro x _ hV hhx
    obtain ⟨m, hm, hid, hpf⟩ := found x hV
    obtain ⟨f1, f2, f3, f4, f5, _, f7, _⟩ := vote_facts m hm
    have := f7.1 f4 f1 f3 f5 (by rw [hid]; exact hhx)
    rw [hid, f2, ← hpf] at this
    exact this
  · intro x _ hV pv hp hpfm
    obtain ⟨m, hm, hid, hpf⟩ := found x hV
    rw [hpf] at hpfm
    obtain ⟨q, hq1, hq2, hq3⟩ := pfOf_some hpfm
    have := (vote_facts m hm).2.2.2.2.2.2.2 q hq1
    rw [hq2, hq3] at this
    exact ⟨this.2.1, this.2.2⟩
  · -- the proposed hash
    have sp := C07.maxBy_spec (fun (m : VCMsg) => proofView m.c.header.proof) ((a.store.getVCs h a.view).filter (fun m => m.block.isSome))
    unfold latestBlockFromVCs at hlb
    cases hmx : maxBy (fun (m : VCMsg) => proofView m.c.header.proof) ((a.store.getVCs h a.view).filter (fun m => m.block.isSome)) with
    | none =>
      left
      intro x _ hV
      obtain ⟨m, hm, hid, hpf⟩ := found x hV
      rw [hpf]
      have hnil := sp.1.mp hmx
      cases hp : m.c.header.proof with
      | none => rfl
      | some q =>
        exfalso
        have : m ∈ (a.store.getVCs h a.view).filter (fun m => m.block.isSome) := by
          rw [List.mem_filter]
          refine ⟨hm, ?_⟩
          show m.block.isSome = true
          rw [hvb m (inStore m hm).1, hp]; rfl
        rw [hnil] at this; cases this
    | some m0 =>
      obtain ⟨hm0f, hmax⟩ := sp.2 m0 hmx
      rw [List.mem_filter] at hm0f
      obtain ⟨hm0, hm0b⟩ := hm0f
      have hm0b' : m0.block.isSome = true := hm0b
      have hm0p : m0.c.header.proof.isSome = true := by rw [← hvb m0 (inStore m0 hm0).1]; exact hm0b'
      cases hp0 : m0.c.header.proof with
      | none => rw [hp0] at hm0p; cases hm0p
      | some p0 =>
        cases hb0 : m0.block with
        | none => rw [hb0] at hm0b'; cases hm0b'
        | some b0 =>
          have hlb' : p0.pRef.hash = hash := by
            rcases hlb with ⟨b, hb⟩ | hn
            · simp only [hmx, hb0, hp0, Option.some.injEq, Prod.mk.injEq] at hb; exact hb.2
            · simp [hmx, hb0, hp0] at hn
          right
          obtain ⟨_, _, _, _, _, ⟨x0, hx0, hx0id⟩, _, hpr0⟩ := vote_facts m0 hm0
          have hV0 : (((a.store.getVCs h a.view).map (·.c)).map (·.sender.id)).contains x0.id = true := by
            apply mem_contains; rw [hx0id]
            exact List.mem_map.mpr ⟨m0.c, List.mem_map.mpr ⟨m0, hm0, rfl⟩, rfl⟩
          refine ⟨x0, hx0, p0.ppRef.view, hV0, ?_, ?_⟩
          · unfold pfFn
            rw [hx0id, voteOf_of_mem _ hnd m0.c (List.mem_map.mpr ⟨m0, hm0, rfl⟩)]
            show pfOf m0.c.header.proof = some (p0.ppRef.view, hash)
            rw [hp0, ← hlb', (hpr0 p0 hp0).1]
            rfl
          · intro x _ hV pv hp hpfm
            obtain ⟨m, hm, hid, hpf⟩ := found x hV
            rw [hpf] at hpfm
            obtain ⟨q, hq1, hq2, _⟩ := pfOf_some hpfm
            have hmf : m ∈ (a.store.getVCs h a.view).filter (fun m => m.block.isSome) := by
              rw [List.mem_filter]
              refine ⟨hm, ?_⟩
              show m.block.isSome = true
              rw [hvb m (inStore m hm).1, hq1]; rfl
            have := hmax m hmf
            simp only [hq1, hp0, proofView] at this
            omega

/-! ## where a proposal's hash comes from: locked by an earlier certificate -/

/-- the hash was certified in an earlier view -/
def Locked (S : Setting) (H : List Ev) (v h : Nat) : Prop := ∃ pv, pv < v ∧ validCert S H pv h

theorem Locked.mono {S : Setting} {H H' : List Ev} (hsub : ∀ e ∈ H, e ∈ H') {v h : Nat} (hl : Locked S H v h) : Locked S H' v h := by
  obtain ⟨pv, h1, h2⟩ := hl
  exact ⟨pv, h1, validCert_mono S hsub h2⟩

/-- follower side: when some vote of a checked NEW_VIEW carries a proof, the embedded proposal's hash
was certified in an earlier view -/
theorem locked_of_checked (hwf : WF C) (H : List Ev) (i : Nat) (nvm : NVMsg)
    (hchk : NVChecked (C.cfg i) nvm) (hadm : ∀ c ∈ nvm.header.votes, AdmVC C H c)
    (lv : VCContent) (hlv : latestVote nvm.header.votes = some lv) :
    Locked (setting C hwf) H nvm.header.view nvm.pp.header.hash := by
  obtain ⟨hvv, _, _, _, hlock⟩ := hchk
  unfold validateVotes at hvv
  simp only [Bool.and_eq_true, List.all_eq_true, beq_iff_eq, decide_eq_true_eq] at hvv
  obtain ⟨⟨_, hall⟩, _⟩ := hvv
  have sp := C07.maxBy_spec (fun (v : VCContent) => proofView v.header.proof) (nvm.header.votes.filter (fun v => v.header.proof.isSome))
  obtain ⟨hmem, _⟩ := sp.2 lv hlv
  rw [List.mem_filter] at hmem
  obtain ⟨hin, hsome⟩ := hmem
  unfold lockOk at hlock
  rw [hlv] at hlock
  simp only [Bool.and_eq_true, beq_iff_eq] at hlock
  obtain ⟨⟨_, h2⟩, h3⟩ := hall lv hin
  obtain ⟨_, _, _, _, s5, s6⟩ := isViewChangeValid_spec _ lv h3
  cases hp : lv.header.proof with
  | none => rw [hp] at hsome; cases hsome
  | some p0 =>
    rw [hp] at s6
    have := validCert_of_proof C hwf H i p0 lv.header.view s6 (s5 p0 hp) ((hadm lv hin).2 p0 hp)
    refine ⟨p0.ppRef.view, by rw [← h2]; exact this.1, ?_⟩
    rw [hlock.2, hp]
    exact this.2

/-- leader side: when the logged votes yield a block to re-propose, its hash was certified in an earlier view -/
theorem locked_of_elected (hwf : WF C) (H : List Ev) (hvalid : Valid (setting C hwf) H)
    (i : Nat) (a : Node) (hcfg : a.cfg = C.cfg i)
    (hvc : C11.VCsOK a) (hadm : StoreAdm C H a)
    (hvb : ∀ m ∈ a.store.vcs, m.block.isSome = m.c.header.proof.isSome)
    (hown : ∀ m ∈ a.store.vcs, m.c.sender = mySig a.cfg → m.c.header.mtype = tVC ∧
        ∀ p, m.c.header.proof = some p → p.pRef.hash = p.ppRef.hash ∧ p.ppRef.view < m.c.header.view
          ∧ Ev.com i p.ppRef.view p.ppRef.hash ∈ H)
    (h' : Nat) (b : Block) (hash : Nat) (hsome : latestBlockFromVCs (a.store.getVCs h' a.view) = some (b, hash)) :
    Locked (setting C hwf) H a.view hash := by
  obtain ⟨m, hm, hmb, hhash, _⟩ := (C09.latestBlockFromVCs_spec (a.store.getVCs h' a.view)).2 b hash hsome
  unfold Store.getVCs at hm
  rw [List.mem_filter] at hm
  simp only [Bool.and_eq_true, beq_iff_eq] at hm
  obtain ⟨hin, _, hmv⟩ := hm
  have hps : m.c.header.proof.isSome = true := by rw [← hvb m hin, hmb]; rfl
  cases hp : m.c.header.proof with
  | none => rw [hp] at hps; cases hps
  | some p0 =>
    rw [hp] at hhash
    simp only at hhash
    rcases hvc.auth m hin with hchk | hmine
    · obtain ⟨_, _, _, _, s5, s6⟩ := isViewChangeValid_spec a m.c hchk.1
      rw [hp, hcfg] at s6
      have h5 := s5 p0 hp
      rw [hcfg] at h5
      have := validCert_of_proof C hwf H i p0 m.c.header.view s6 h5 ((hadm.vcs m hin).2 p0 hp)
      refine ⟨p0.ppRef.view, by rw [← hmv]; exact this.1, ?_⟩
      rw [hhash, validatePreparedProof_hash _ _ _ p0 s6]
      exact this.2
    · obtain ⟨_, o2⟩ := hown m hin hmine
      obtain ⟨q1, q2, q3⟩ := o2 p0 hp
      refine ⟨p0.ppRef.view, by rw [← hmv]; exact q2, ?_⟩
      rw [hhash, q1]
      exact Spec.com_cert (setting C hwf) hvalid q3

end LeanHelix.Net
