import LeanHelix.Model.Basic
/-!
# Model of `state.State` (state/state.go): the (height, view) pair and its two guarded setters.
`SetHeightView` (the unguarded setter) has no non-test caller; the fact extractor checks that.
Each method runs under the mutex, so a concurrent history is a sequence of these atomic steps.
-/
namespace LeanHelix.State

structure HV where
  height : Nat
  view : Nat
deriving Repr, DecidableEq, Inhabited

/-- `HeightView.OlderThan` -/
def HV.olderThan (a b : HV) : Bool :=
  a.height < b.height || (a.height == b.height && a.view < b.view)

inductive Op where
  | setHeightAndResetView (h : Nat)
  | setView (v : Nat)
deriving Repr

/-- returns the new state, the `*HeightView` result and whether the call succeeded (`err == nil`) -/
def step (s : HV) : Op → HV × HV × Bool
  | .setHeightAndResetView h =>
      if s.height ≥ h then (s, s, false) else (⟨h, 0⟩, ⟨h, 0⟩, true)
  | .setView v =>
      if s.view > v then (s, s, false) else (⟨s.height, v⟩, ⟨s.height, v⟩, true)

def init : HV := ⟨0, 0⟩

def run (s : HV) (ops : List Op) : HV := ops.foldl (fun s o => (step s o).1) s

end LeanHelix.State
