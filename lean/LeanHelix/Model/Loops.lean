import LeanHelix.Model.Worker
/-!
# Model of the two loops (mainloop.go + workerloop.go) under a serialised schedule

`MainLoop.run` owns the API channels; for each item it cancels the contexts the item makes
obsolete, and forwards the item to the worker without ever blocking (drop-if-full for messages,
drain-then-send on the capacity-1 election and update channels).  `WorkerLoop.Run` handles one
forwarded item at a time (`Worker.step`).  Under a serialised schedule (one API call, trigger or
cancellation at a time, the next one only after both loops are idle) the system is the sequential
composition modelled here.  What the Go runtime may do with *concurrent* calls is outside this model.
-/
namespace LeanHelix.Loops
open LeanHelix LeanHelix.Msg LeanHelix.Contexts LeanHelix.Worker

structure LNode where
  w : WNode
  maxSync : Option Nat := none     -- maxBlockHeightBySync
  down : Bool := false             -- the context given to Run was cancelled: both loops have exited
deriving Repr, Inhabited

inductive LEvent where
  | msg (m : Option Message)       -- HandleConsensusMessage; none: content that cannot be read
  | trigger (h v : Nat)            -- an election trigger arrives on the election channel
  | sync (blockHeight : Option Nat)-- UpdateState(block, proof); none: nil block
  | cancel                         -- the context given to Run is cancelled
deriving Repr, Inhabited

def regStep (n : LNode) (op : Contexts.Op) : LNode :=
  { n with w := { n.w with reg := (Contexts.step n.w.reg op).1 } }

/-- `m.state.GcOldContexts()` at the top of every main-loop iteration -/
def gc (n : LNode) : LNode := regStep n (.cancelOlderThan ⟨n.w.height, 0⟩)

def forIssued (n : LNode) (h v : Nat) : LNode × Bool :=
  let (r, res) := Contexts.step n.w.reg (.for_ ⟨h, v⟩)
  ({ n with w := { n.w with reg := r } }, match res with | .ctx _ => true | _ => false)

def toWorker (fuel : Nat) (n : LNode) (e : WEvent) (spi : List WSpi) : LNode × List WOut :=
  let (w', outs) := Worker.step fuel n.w e spi
  ({ n with w := w' }, outs)

/-- `maxBlockHeightBySync != nil && *maxBlockHeightBySync >= receivedBlockHeight` -/
def alreadySynced (n : LNode) (bh : Nat) : Bool :=
  match n.maxSync with
  | some ms => decide (ms ≥ bh)
  | none => false

/-- the UpdateState case of the main loop followed by the worker's handling of the forwarded block -/
def syncStep (fuel : Nat) (n : LNode) (bh : Nat) (spi : List WSpi) : LNode × List WOut :=
  if alreadySynced n bh then (n, [])
  else
    let n := regStep n (.cancelOlderThan ⟨wrap64 (bh + 1), 0⟩)
    let (n, ok) := forIssued n (wrap64 (bh + 1)) 0
    if !ok then (n, [])
    else
      let (n, outs) := toWorker fuel n (.update bh) spi
      ({ n with maxSync := some bh }, outs)

/-- the election-trigger case of the main loop followed by the worker's handling -/
def triggerStep (fuel : Nat) (n : LNode) (h v : Nat) (spi : List WSpi) : LNode × List WOut :=
  let tv := wrap64 (v + 1)
  let n := regStep n (.cancelOlderThan ⟨h, tv⟩)
  let (n, ok) := forIssued n h tv
  if !ok then (n, []) else toWorker fuel n (.election h v) spi

/-- cancellation of the context given to Run: the main loop leaves its loop and the deferred
`worker.interrupt()` shuts the registry down; the worker's `cleanupCurrentTerm()` disposes the term
(stops the election timer) -/
def cancelStep (n : LNode) : LNode × List WOut :=
  let n := regStep n .shutdown
  let outs := if n.w.term.isSome then [WOut.stopTimer] else []
  ({ n with down := true, w := { n.w with term := none } }, outs)

def step (fuel : Nat) (n : LNode) (e : LEvent) (spi : List WSpi) : LNode × List WOut :=
  if n.down then (n, [])                       -- API calls return at once, nothing runs any more
  else
    let n := gc n
    match e with
    | .msg none => (n, [])                      -- the readability gate drops it
    | .msg (some m) => toWorker fuel n (.deliver m) spi
    | .trigger h v => triggerStep fuel n h v spi
    | .sync b => syncStep fuel n (b.getD 0) spi
    | .cancel => cancelStep n

end LeanHelix.Loops
