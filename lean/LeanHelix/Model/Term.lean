import LeanHelix.Model.Msg
import LeanHelix.Model.Quorum
import LeanHelix.Model.Leader
import LeanHelix.Model.Contexts
/-!
# Model of `TermInCommittee` (services/termincommittee/term_in_committee.go), with
`ConsensusMessagesFilter` (share check), `InMemoryStorage`, `proofsvalidator`, `blockextractor`,
`preparedmessages` and the message factory as far as field values go.

One `Node` = the protocol state of one node during one height.  `step` takes an event, the
answers of the consumer SPIs in call order (`Spi`), and returns the new state and the ordered
list of observable effects (`Out`).  The code modelled is /repo *after* the `fix:` commits
recorded in known_findings.json; the one remaining deviation (a bare PREPREPARE is accepted in a
view above 0, D5) is modelled as the code behaves.
-/
namespace LeanHelix.Term
open LeanHelix LeanHelix.Msg LeanHelix.State LeanHelix.Contexts

/-! ## storage (`InMemoryStorage`): first-wins inserts, lookups by key -/

structure Store where
  pps : List PPMsg := []        -- key (height, view)
  prepares : List PMsg := []    -- key (height, view, hash, sender)
  commits : List CMsg := []     -- key (height, view, hash, sender)
  vcs : List VCMsg := []        -- key (height, view, sender)
deriving Repr, Inhabited

def Store.getPP (s : Store) (h v : Nat) : Option PPMsg :=
  s.pps.find? (fun m => m.c.header.height == h && m.c.header.view == v)

def Store.storePP (s : Store) (m : PPMsg) : Store :=
  match s.getPP m.c.header.height m.c.header.view with
  | some _ => s
  | none => { s with pps := s.pps ++ [m] }

def Store.storePrepare (s : Store) (m : PMsg) : Store :=
  if s.prepares.any (fun x => x.header.height == m.header.height && x.header.view == m.header.view
      && x.header.hash == m.header.hash && x.sender.id == m.sender.id) then s
  else { s with prepares := s.prepares ++ [m] }

def Store.getPrepares (s : Store) (h v hash : Nat) : List PMsg :=
  s.prepares.filter (fun x => x.header.height == h && x.header.view == v && x.header.hash == hash)

/-- `GetPrepareMessages` returns ok only if some PREPARE is stored for (height, view), any hash -/
def Store.hasPrepareView (s : Store) (h v : Nat) : Bool :=
  s.prepares.any (fun x => x.header.height == h && x.header.view == v)

def Store.storeCommit (s : Store) (m : CMsg) : Store :=
  if s.commits.any (fun x => x.header.height == m.header.height && x.header.view == m.header.view
      && x.header.hash == m.header.hash && x.sender.id == m.sender.id) then s
  else { s with commits := s.commits ++ [m] }

def Store.getCommits (s : Store) (h v hash : Nat) : List CMsg :=
  s.commits.filter (fun x => x.header.height == h && x.header.view == v && x.header.hash == hash)

def Store.storeVC (s : Store) (m : VCMsg) : Store :=
  if s.vcs.any (fun x => x.c.header.height == m.c.header.height && x.c.header.view == m.c.header.view
      && x.c.sender.id == m.c.sender.id) then s
  else { s with vcs := s.vcs ++ [m] }

def Store.getVCs (s : Store) (h v : Nat) : List VCMsg :=
  s.vcs.filter (fun x => x.c.header.height == h && x.c.header.view == v)

/-! ## configuration, state, effects -/

structure Cfg where
  me : Nat
  inst : Nat
  height : Nat
  members : List Member
deriving Repr, Inhabited

/-- answers of the consumer SPIs, in call order -/
inductive Spi where
  /-- `RequestNewBlockProposal` returned this block; `cancelAt = some v`: while the call was running
  the main loop handled an election trigger of this height, i.e. `CancelOlderThan (height, v)` ran
  (v = current view + 1 for the current view's trigger, smaller for a late trigger of an older view).
  Whether `ctx.Err() != nil` afterwards is *computed* from the registry model. -/
  | proposal (b : Block) (cancelAt : Option Nat)
  /-- `ValidateBlockProposal` verdict; `cancelAt` as above -/
  | verdict (ok : Bool) (cancelAt : Option Nat)
deriving Repr, Inhabited

inductive Out where
  | send (recipients : List Nat) (m : Message)
  | commit (block : Block) (commits : List CMsg)          -- the in-committee commit callback
  | registerElection (h v : Nat)
  | callRequest (h : Nat)                                  -- SPI calls, in order
  | callValidate (h : Nat) (block : Option Block) (hash : Nat)
  | goPanic (what : String)
deriving Repr, Inhabited

structure Node where
  cfg : Cfg
  view : Nat := 0                 -- State.view (height is cfg.height during the term)
  prepared : Option Nat := none   -- preparedLocally.latestView
  latestNV : Nat := 0             -- latestViewThatProcessedVCMOrNVM
  committed : Option Block := none
  store : Store := {}
  reg : Reg := {}                 -- State.Contexts
deriving Repr, Inhabited

/-- the working context of one event: state, effects so far (newest last), remaining SPI answers -/
structure W where
  n : Node
  outs : List Out := []
  spi : List Spi := []
deriving Repr, Inhabited

def W.emit (w : W) (o : Out) : W := { w with outs := w.outs ++ [o] }

def maxView : Nat := U64 - 1

/-! ## helpers mirroring the Go helpers -/

def others (c : Cfg) : List Nat := (c.members.map (·.id)).filter (fun i => i != c.me)

def isQuorum (c : Cfg) (ids : List Nat) : Bool := (Quorum.isQuorum ids c.members).1

def leaderId (c : Cfg) (v : Nat) : Nat :=
  match Leader.leaderOf v c.members with
  | .ok i => i
  | _ => 0   -- unreachable: committees have at least 4 members

def isLeader (c : Cfg) (id v : Nat) : Bool := leaderId c v == id

def isMember (c : Cfg) (id : Nat) : Bool := c.members.any (fun m => m.id == id)

/-- `State.Contexts.For(hv)`: the context's id, or none on error -/
def ctxFor (w : W) (h v : Nat) : W × Option Nat :=
  let (r, res) := Contexts.step w.n.reg (.for_ ⟨h, v⟩)
  ({ w with n := { w.n with reg := r } }, match res with | .ctx i => some i | _ => none)

/-- `ctx.Err() != nil` -/
def ctxDone (w : W) (id : Nat) : Bool := Contexts.done w.n.reg id

/-- the main loop's reaction to an election trigger of this height, running concurrently with an SPI call -/
def cancelMeanwhile (w : W) (cancelAt : Option Nat) : W :=
  match cancelAt with
  | some v => { w with n := { w.n with reg := (Contexts.step w.n.reg (.cancelOlderThan ⟨w.n.cfg.height, v⟩)).1 } }
  | none => w

def mySig (c : Cfg) : SSig := ⟨c.me, true⟩

def mkRef (c : Cfg) (t v hash : Nat) : BlockRef := ⟨t, c.inst, c.height, v, hash⟩

/-- `initView`: `State.SetView` (refuses to go back) + `RegisterOnElection` -/
def initView (w : W) (v : Nat) : W × Bool :=
  if w.n.view > v then (w, false)
  else ({ w with n := { w.n with view := v } }.emit (.registerElection w.n.cfg.height v), true)

/-- the COMMIT a node creates for (h, v, hash): `CreateCommitMessage(blockHeight, view, blockHash)` -/
def ownCommit (c : Cfg) (h v hash : Nat) : CMsg := ⟨⟨tC, c.inst, h, v, hash⟩, mySig c, true⟩
/-- the PREPARE a node creates: `CreatePrepareMessage(blockHeight, view, blockHash)` -/
def ownPrepare (c : Cfg) (h v hash : Nat) : PMsg := ⟨⟨tP, c.inst, h, v, hash⟩, mySig c⟩

/-! ## prepared / committed checks -/

def isPreprepared (n : Node) (h v hash : Nat) : Bool :=
  match n.store.getPP h v with
  | none => false
  | some ppm => ppm.block.isSome && ppm.c.header.hash == hash

def checkCommitted (w : W) (h v hash : Nat) : W :=
  if w.n.committed.isSome then w
  else if !isPreprepared w.n h v hash then w
  else
    let commits := w.n.store.getCommits h v hash
    if !isQuorum w.n.cfg (commits.map (·.sender.id)) then w
    else match w.n.store.getPP h v with
      | none => w
      | some ppm =>
        let (w, ctx) := ctxFor w h maxView
        if ctx.isNone then w
        else match ppm.block with
          | none => w     -- unreachable: isPreprepared
          | some b =>
            -- sendCommitIfNotAlreadySent
            let w := if commits.any (fun c => c.sender.id == w.n.cfg.me) then w
                     else w.emit (.send (others w.n.cfg) (.commit (ownCommit w.n.cfg h v hash)))
            let w := { w with n := { w.n with committed := some b } }
            w.emit (.commit b commits)

def onPreparedLocally (w : W) (h v hash : Nat) : W :=
  let w := { w with n := { w.n with prepared := some v } }
  let cm : CMsg := ⟨⟨tC, w.n.cfg.inst, h, v, hash⟩, mySig w.n.cfg, true⟩
  let w := { w with n := { w.n with store := w.n.store.storeCommit cm } }
  let w := w.emit (.send (others w.n.cfg) (.commit cm))
  checkCommitted w h v hash

def checkPreparedLocally (w : W) (h v hash : Nat) : W :=
  if w.n.prepared == some v then w
  else if !isPreprepared w.n h v hash then w
  else match w.n.store.getPP h v with
    | none => w
    | some ppm =>
      let ids := (w.n.store.getPrepares h v hash).map (·.sender.id) ++ [ppm.c.sender.id]
      if isQuorum w.n.cfg ids then onPreparedLocally w h v hash else w

/-! ## PREPREPARE -/

/-- `validatePreprepare` -/
def validatePreprepare (n : Node) (ppm : PPMsg) : Bool :=
  let hd := ppm.c.header
  (n.store.getPP hd.height hd.view).isNone
  && hd.mtype == tPP
  && ppm.c.sender.ok
  && isLeader n.cfg ppm.c.sender.id hd.view

def processPreprepare (w : W) (ppm : PPMsg) : W :=
  let hd := ppm.c.header
  if w.n.view != hd.view then w
  else
    let pm : PMsg := ⟨⟨tP, w.n.cfg.inst, hd.height, hd.view, hd.hash⟩, mySig w.n.cfg⟩
    let w := { w with n := { w.n with store := (w.n.store.storePP ppm).storePrepare pm } }
    let w := w.emit (.send (others w.n.cfg) (.prepare pm))
    checkPreparedLocally w hd.height hd.view hd.hash

/-- `ValidateBlockProposal` with its context: returns the continuation state and whether to go on -/
def askValidate (w : W) (h v : Nat) (block : Option Block) (hash : Nat) : W × Bool :=
  let (w, ctx) := ctxFor w h v
  match ctx with
  | none => (w, false)
  | some id =>
    let w := w.emit (.callValidate h block hash)
    match w.spi with
    | .verdict good cancelDuring :: rest =>
      let w := cancelMeanwhile { w with spi := rest } cancelDuring
      (w, good && !ctxDone w id)
    | _ => (w.emit (.goPanic "missing SPI answer"), false)

/-- `RequestNewBlockProposal` with its context: the block if it may be proposed (the context was
issued and is still live after the call) -/
def askProposal (w : W) (h v : Nat) : W × Option Block :=
  let (w, ctx) := ctxFor w h v
  match ctx with
  | none => (w, none)
  | some id =>
    let w := w.emit (.callRequest h)
    match w.spi with
    | .proposal b cancelDuring :: rest =>
      let w := cancelMeanwhile { w with spi := rest } cancelDuring
      (w, if ctxDone w id then none else some b)
    | _ => (w.emit (.goPanic "missing SPI answer"), none)

/-- a node that holds a prepared certificate refuses a stand-alone PREPREPARE of a later view for another hash -/
def lockConflict (n : Node) (ppm : PPMsg) : Bool :=
  match n.prepared with
  | none => false
  | some pv =>
    decide (ppm.c.header.view > pv) &&
      (match n.store.getPP ppm.c.header.height pv with
       | some locked => locked.c.header.hash != ppm.c.header.hash
       | none => false)

def handlePrePrepare (w : W) (ppm : PPMsg) : W :=
  if !validatePreprepare w.n ppm then w
  else if lockConflict w.n ppm then w
  else
    let hd := ppm.c.header
    let (w, ok) := askValidate w hd.height hd.view ppm.block hd.hash
    if !ok then w else processPreprepare w ppm

/-! ## PREPARE, COMMIT -/

def handlePrepare (w : W) (pm : PMsg) : W :=
  let hd := pm.header
  if hd.mtype != tP then w
  else if !isMember w.n.cfg pm.sender.id then w
  else if !pm.sender.ok then w
  else if hd.view < w.n.view then w
  else if isLeader w.n.cfg pm.sender.id hd.view then w
  else
    let w := { w with n := { w.n with store := w.n.store.storePrepare pm } }
    checkPreparedLocally w hd.height hd.view hd.hash

def handleCommit (w : W) (cm : CMsg) : W :=
  let hd := cm.header
  if !cm.shareOk then w                          -- ConsensusMessagesFilter: VerifyRandomSeed
  else if hd.mtype != tC then w
  else if !isMember w.n.cfg cm.sender.id then w
  else if !cm.sender.ok then w
  else
    let w := { w with n := { w.n with store := w.n.store.storeCommit cm } }
    checkCommitted w hd.height hd.view hd.hash

/-! ## prepared proofs and votes -/

/-- `proofsvalidator.ValidatePreparedProof` -/
def validatePreparedProof (c : Cfg) (targetHeight targetView : Nat) (proof : Option Proof) : Bool :=
  match proof with
  | none => true
  | some p =>
    p.ppRef.height == targetHeight
    && decide (p.ppRef.view < targetView)
    && isQuorum c (p.pSenders.map (·.id) ++ [p.ppSender.id])
    && p.ppSender.ok
    && leaderId c p.ppRef.view == p.ppSender.id
    && p.pRef.hash == p.ppRef.hash
    && p.pRef.height == p.ppRef.height
    && p.pRef.view == p.ppRef.view
    && p.pSenders.all (fun s => s.ok && s.id != p.ppSender.id && isMember c s.id)
    && (p.pSenders.map (·.id)).Nodup

/-- `isViewChangeValid` -/
def isViewChangeValid (n : Node) (vc : VCContent) : Bool :=
  let hd := vc.header
  hd.mtype == tVC
  && hd.inst == n.cfg.inst
  && isMember n.cfg vc.sender.id
  && vc.sender.ok
  && (match hd.proof with
      | none => true
      | some p => p.ppRef.mtype == tPP && p.pRef.mtype == tP && p.ppRef.inst == n.cfg.inst && p.pRef.inst == n.cfg.inst)
  && validatePreparedProof n.cfg n.cfg.height hd.view hd.proof

def proofHash (p : Option Proof) : Nat :=
  match p with
  | some p => p.ppRef.hash
  | none => emptyBytes

def proofView (p : Option Proof) : Nat :=
  match p with
  | some p => p.ppRef.view
  | none => 0

/-- the element with the largest key, the first one among equals (the Go code uses an unstable
sort; ties between different certified blocks need more than f Byzantine weight) -/
def maxBy {α} (key : α → Nat) : List α → Option α
  | [] => none
  | x :: xs =>
    match maxBy key xs with
    | none => some x
    | some y => if key y > key x then some y else some x

/-- `blockextractor.GetLatestBlockFromViewChangeMessages` -/
def latestBlockFromVCs (vcs : List VCMsg) : Option (Block × Nat) :=
  match maxBy (fun (m : VCMsg) => proofView m.c.header.proof) (vcs.filter (fun m => m.block.isSome)) with
  | none => none
  | some m =>
    match m.block with
    | some b => some (b, match m.c.header.proof with | some p => p.pRef.hash | none => emptyBytes)
    | none => none

/-- `preparedmessages.ExtractPreparedMessages` + `CreatePreparedProofBuilderFromPreparedMessages` -/
def extractProof (n : Node) (pv : Nat) : Option (Proof × Option Block) :=
  match n.store.getPP n.cfg.height pv with
  | none => none
  | some ppm =>
    let hash := ppm.c.header.hash
    let ps := n.store.getPrepares n.cfg.height pv hash
    if !isQuorum n.cfg (ps.map (·.sender.id) ++ [ppm.c.sender.id]) then none
    else if !n.store.hasPrepareView n.cfg.height pv then none
    else match ps with
      | [] => none    -- Go: index out of range on prepareMessages[0]; unreachable when prepared
      | p0 :: _ =>
        some (⟨⟨tPP, ppm.c.header.inst, ppm.c.header.height, ppm.c.header.view, hash⟩, ppm.c.sender,
               ⟨tP, p0.header.inst, p0.header.height, p0.header.view, p0.header.hash⟩, ps.map (·.sender)⟩,
              ppm.block)

/-! ## election, VIEW_CHANGE, NEW_VIEW (leader side) -/

def onElectedByViewChange (w : W) (view : Nat) (vcs : List VCMsg) : W :=
  let w := { w with n := { w.n with latestNV := view } }
  let (w, ok) := initView w view
  if !ok then w
  else
    let h := w.n.cfg.height
    let finish (w : W) (b : Block) (hash : Nat) : W :=
      let ppc : PPContent := ⟨mkRef w.n.cfg tPP view hash, mySig w.n.cfg⟩
      let nv : NVMsg := ⟨⟨tNV, w.n.cfg.inst, h, view, vcs.map (·.c)⟩, mySig w.n.cfg, ppc, some b⟩
      let w := { w with n := { w.n with store := w.n.store.storePP ⟨ppc, some b⟩ } }
      w.emit (.send (others w.n.cfg) (.newView nv))
    match latestBlockFromVCs vcs with
    | some (b, hash) => finish w b hash
    | none =>
      let (w, ob) := askProposal w h view
      match ob with
      | some b => finish w b b.hash
      | none => w

def checkElected (w : W) (h view : Nat) : W :=
  if w.n.latestNV ≥ view then w
  else
    let vcs := w.n.store.getVCs h view
    if vcs.isEmpty then w
    else if !isQuorum w.n.cfg (vcs.map (·.c.sender.id)) then w
    else onElectedByViewChange w view vcs

/-- `moveToNextLeaderByElection(height, view)` -/
def election (w : W) (h v : Nat) : W :=
  if h != w.n.cfg.height || v != w.n.view then w
  else
    let nv := wrap64 (w.n.view + 1)
    let (w, ok) := initView w nv
    if !ok then w
    else
      let pr : Option (Proof × Option Block) :=
        match w.n.prepared with
        | some pv => extractProof w.n pv
        | none => none
      let vc : VCMsg := ⟨⟨⟨tVC, w.n.cfg.inst, h, nv, pr.map (·.1)⟩, mySig w.n.cfg⟩, pr.bind (·.2)⟩
      if isLeader w.n.cfg w.n.cfg.me nv then
        let w := { w with n := { w.n with store := w.n.store.storeVC vc } }
        checkElected w h nv
      else w.emit (.send [leaderId w.n.cfg nv] (.viewChange vc))

def handleViewChange (w : W) (vcm : VCMsg) : W :=
  let hd := vcm.c.header
  if !isLeader w.n.cfg w.n.cfg.me hd.view then w          -- isViewChangeAccepted
  else if w.n.view > hd.view then w
  else if !isViewChangeValid w.n vcm.c then w
  else if vcm.block.isNone && hd.proof.isSome then w      -- prepared proof without its block
  else if vcm.block.isSome && !commitmentOk vcm.block (proofHash hd.proof) then w
  else
    let w := { w with n := { w.n with store := w.n.store.storeVC vcm } }
    checkElected w hd.height hd.view

/-! ## NEW_VIEW (follower side) -/

/-- `validateViewChangeVotes` -/
def validateVotes (n : Node) (targetHeight targetView : Nat) (votes : List VCContent) : Bool :=
  isQuorum n.cfg (votes.map (·.sender.id))
  && votes.all (fun v => v.header.height == targetHeight && v.header.view == targetView && isViewChangeValid n v)
  && (votes.map (·.sender.id)).Nodup

/-- `latestViewChangeVote` -/
def latestVote (votes : List VCContent) : Option VCContent :=
  maxBy (fun (v : VCContent) => proofView v.header.proof) (votes.filter (fun v => v.header.proof.isSome))

/-- the lock branch of `HandleNewView`: when some vote carries a proof, the highest one must be
valid, the attached block must commit to the proven hash, and the embedded proposal must be signed
over that same hash -/
def lockOk (n : Node) (nvm : NVMsg) : Bool :=
  match latestVote nvm.header.votes with
  | none => true
  | some v =>
    isViewChangeValid n v
    && commitmentOk nvm.block (proofHash v.header.proof)
    && nvm.pp.header.hash == proofHash v.header.proof

/-- the tail of `HandleNewView` once the certificate has been checked: fresh proposals go through the
consumer's validation, then the embedded proposal is adopted like a PREPREPARE of the new view -/
def adoptNewView (w : W) (nvm : NVMsg) : W :=
  let hd := nvm.header
  let ppm : PPMsg := ⟨nvm.pp, nvm.block⟩
  let (w, ok) :=
    if (latestVote hd.votes).isNone then askValidate w hd.height hd.view nvm.block nvm.pp.header.hash
    else (w, true)
  if !ok then w
  else if !validatePreprepare w.n ppm then w
  else
    let w := { w with n := { w.n with latestNV := hd.view } }
    let (w, ok) := initView w hd.view
    if !ok then w else processPreprepare w ppm

def handleNewView (w : W) (nvm : NVMsg) : W :=
  let hd := nvm.header
  if hd.mtype != tNV then w
  else if w.n.view > hd.view then w
  else if !nvm.sender.ok then w
  else if !isLeader w.n.cfg nvm.sender.id hd.view then w
  else if !validateVotes w.n hd.height hd.view hd.votes then w
  else if nvm.pp.header.view != hd.view then w
  else if nvm.pp.header.height != hd.height then w
  else if nvm.pp.header.inst != w.n.cfg.inst then w      -- the embedded proposal must be of this instance
  else if !lockOk w.n nvm then w
  else adoptNewView w nvm

/-! ## term start and the step function -/

/-- `NewTermInCommittee` → `startTerm(canBeFirstLeader)` -/
def startTerm (w : W) (canBeFirstLeader : Bool) : W :=
  let w := { w with n := { w.n with prepared := none } }
  let (w, ok) := initView w 0
  if !ok then w
  else if w.n.cfg.height > 1 && !canBeFirstLeader then w
  else if !isLeader w.n.cfg w.n.cfg.me 0 then w
  else
    let (w, ob) := askProposal w w.n.cfg.height 0
    match ob with
    | none => w
    | some b =>
      let ppc : PPContent := ⟨mkRef w.n.cfg tPP 0 b.hash, mySig w.n.cfg⟩
      let w := { w with n := { w.n with store := w.n.store.storePP ⟨ppc, some b⟩ } }
      w.emit (.send (others w.n.cfg) (.preprepare ⟨ppc, some b⟩))

inductive Event where
  | start (canBeFirstLeader : Bool)
  | deliver (m : Message)
  | election (h v : Nat)
  | cancelOlder (h v : Nat)        -- the main loop's CancelOlderThan, between events
deriving Repr, Inhabited

def step (n : Node) (e : Event) (spi : List Spi) : Node × List Out :=
  let w : W := { n := n, spi := spi }
  let w := match e with
    | .start c => startTerm w c
    | .deliver (.preprepare m) => handlePrePrepare w m
    | .deliver (.prepare m) => handlePrepare w m
    | .deliver (.commit m) => handleCommit w m
    | .deliver (.viewChange m) => handleViewChange w m
    | .deliver (.newView m) => handleNewView w m
    | .election h v => election w h v
    | .cancelOlder h v => { w with n := { w.n with reg := (Contexts.step w.n.reg (.cancelOlderThan ⟨h, v⟩)).1 } }
  (w.n, w.outs)

end LeanHelix.Term
