import LeanHelix.Model.Basic
/-!
# Model of `TimerBasedElectionTrigger` bookkeeping (arm / stop / expire / deliver)

Each `time.AfterFunc` instance is a numbered timer with a state.  `fire` is the runtime's step
"the timeout elapsed and the timer function started" (it then blocks sending on the unbuffered
election channel); `recv` is the main loop taking the trigger from the channel.  Real time, and
the race between a reader and a concurrent cancel both being ready, are outside the model.
-/
namespace LeanHelix.Trigger

inductive TState where
  | pending      -- AfterFunc scheduled, not yet fired
  | sending      -- fired; goroutine blocked on `electionChannel <- trigger`
  | delivered    -- the trigger was taken from the channel
  | stopped      -- `timer.Stop()` succeeded before it fired
  | cancelled    -- fired, then `triggerCancelled` was closed before anybody read it
deriving Repr, DecidableEq, Inhabited

structure Timer where
  id : Nat
  h : Nat
  v : Nat
  st : TState
deriving Repr, DecidableEq, Inhabited

structure Trig where
  handler : Bool := false          -- `electionHandler != nil`
  h : Nat := 0
  v : Nat := 0
  timer : Option Nat := none       -- `t.timer`
  timers : List Timer := []
  next : Nat := 0
deriving Repr, Inhabited

def setSt (ts : List Timer) (id : Nat) (s : TState) : List Timer :=
  ts.map (fun t => if t.id == id then { t with st := s } else t)

def getSt (ts : List Timer) (id : Nat) : Option TState := (ts.find? (fun t => t.id == id)).map (·.st)

/-- what `Stop()` does to the current timer: `timer.Stop()` succeeds if it has not fired; if its
function is already running, `triggerCancelled` is closed; if it already delivered, nothing is left -/
def stoppedTimers (ts : List Timer) (id : Nat) : List Timer :=
  match getSt ts id with
  | some .pending => setSt ts id .stopped
  | some .sending => setSt ts id .cancelled
  | _ => ts

/-- `Stop()` -/
def stop (t : Trig) : Trig :=
  match t.timer with
  | none => { t with handler := false }
  | some id => { t with handler := false, timers := stoppedTimers t.timers id, timer := none }

/-- `RegisterOnElection(h, v, cb)` -/
def register (t : Trig) (h v : Nat) : Trig :=
  if t.handler && t.v == v && t.h == h then t
  else
    let t := stop { t with h := h, v := v }
    { t with timers := t.timers ++ [⟨t.next, h, v, .pending⟩], timer := some t.next, next := t.next + 1, handler := true }

/-- the timeout of timer `id` elapses -/
def fire (t : Trig) (id : Nat) : Trig :=
  match getSt t.timers id with
  | some .pending => { t with timers := setSt t.timers id .sending }
  | _ => t

/-- the main loop reads the election channel: the (unique) sending timer, if any, delivers -/
def recv (t : Trig) : Trig × Option (Nat × Nat) :=
  match t.timers.find? (fun x => x.st == .sending) with
  | some x => ({ t with timers := setSt t.timers x.id .delivered }, some (x.h, x.v))
  | none => (t, none)

inductive Op where
  | register (h v : Nat)
  | stop
  | fire (id : Nat)
  | recv
deriving Repr

def step (t : Trig) : Op → Trig
  | .register h v => register t h v
  | .stop => stop t
  | .fire id => fire t id
  | .recv => (recv t).1

end LeanHelix.Trigger
