import LeanHelix.Model.Basic
/-!
# Protocol messages as the handlers see them

A signed header is modelled by its field values.  Every `SenderSignature` carries `ok`: the answer of
`KeyManager.VerifyConsensusMessage(header.BlockHeight(), header.Raw(), sender)` for the header it
is attached to.  This answer depends only on the message (and the keys), never on the node's
state, so the harness computes it with the same key manager the node uses and hands it to the
model as part of the message (SPI answers are inputs).  Unforgeability is a hypothesis of the
network-level theorems (`Spec/`), not of the node model.

A block is identified by a token; `hash` is the commitment the consumer's `ValidateBlockCommitment`
accepts for it, `height` is what `block.Height()` returns.
-/
namespace LeanHelix.Msg

def tPP : Nat := 1
def tP : Nat := 2
def tC : Nat := 3
def tNV : Nat := 4
def tVC : Nat := 5

/-- token of the empty byte string (ids and hashes travel as `x<hex>`; see `Parse.idOfTok`) -/
def emptyBytes : Nat := 1

structure Block where
  id : Nat
  height : Nat
  hash : Nat
deriving DecidableEq, Repr, Inhabited

structure BlockRef where
  mtype : Nat
  inst : Nat
  height : Nat
  view : Nat
  hash : Nat
deriving DecidableEq, Repr, Inhabited

structure SSig where
  id : Nat
  ok : Bool
deriving DecidableEq, Repr, Inhabited

structure Proof where
  ppRef : BlockRef
  ppSender : SSig
  pRef : BlockRef
  pSenders : List SSig
deriving DecidableEq, Repr, Inhabited

structure VCHeader where
  mtype : Nat
  inst : Nat
  height : Nat
  view : Nat
  proof : Option Proof
deriving DecidableEq, Repr, Inhabited

structure VCContent where
  header : VCHeader
  sender : SSig
deriving DecidableEq, Repr, Inhabited

structure PPContent where
  header : BlockRef
  sender : SSig
deriving DecidableEq, Repr, Inhabited

structure NVHeader where
  mtype : Nat
  inst : Nat
  height : Nat
  view : Nat
  votes : List VCContent
deriving DecidableEq, Repr, Inhabited

structure PPMsg where
  c : PPContent
  block : Option Block
deriving DecidableEq, Repr, Inhabited

structure PMsg where
  header : BlockRef
  sender : SSig
deriving DecidableEq, Repr, Inhabited

structure CMsg where
  header : BlockRef
  sender : SSig
  shareOk : Bool     -- VerifyRandomSeed of the share under this term's random seed
deriving DecidableEq, Repr, Inhabited

structure VCMsg where
  c : VCContent
  block : Option Block
deriving DecidableEq, Repr, Inhabited

structure NVMsg where
  header : NVHeader
  sender : SSig
  pp : PPContent
  block : Option Block
deriving DecidableEq, Repr, Inhabited

inductive Message where
  | preprepare (m : PPMsg)
  | prepare (m : PMsg)
  | commit (m : CMsg)
  | viewChange (m : VCMsg)
  | newView (m : NVMsg)
deriving DecidableEq, Repr, Inhabited

/-- `ValidateBlockCommitment(height, block, hash)` of a consumer whose commitment is the block's hash -/
def commitmentOk (block : Option Block) (hash : Nat) : Bool :=
  match block with
  | some b => b.hash == hash
  | none => false

end LeanHelix.Msg
