import LeanHelix.Model.Msg
import LeanHelix.Model.Quorum
/-!
# Model of `WorkerLoop.ValidateBlockConsensus` (workerloop.go) and `GenerateLeanHelixBlockProof`

The proof bytes are modelled by their decoded fields (`BProof`); unreadable bytes are `none`
(after the `fix:` commit the reader's panic becomes an error).  As everywhere, each signer carries
the key manager's verdict `ok` for its signature over the proof's block ref, and `seedOk` is the
verdict of `VerifyRandomSeed` for the aggregated signature against the seed derived from the
previous proof.
-/
namespace LeanHelix.BlockProof
open LeanHelix LeanHelix.Msg

structure BProof where
  ref : BlockRef
  nodes : List SSig
  seedSigEmpty : Bool      -- `len(RandomSeedSignature()) == 0`
  seedOk : Bool
deriving Repr, DecidableEq, Inhabited

structure VInput where
  ctxCancelled : Bool
  block : Option Block
  proof : Option BProof        -- none: nil / empty / unreadable bytes
  inst : Nat                   -- config.InstanceId
  members : List Member        -- RequestCommitteeForBlockProof
  soft : Bool
deriving Repr, Inhabited

inductive Verdict where
  | ok
  | errCtx | errNilBlock | errNilProof | errType | errInstance | errHeight | errCommitment
  | errSignature | errDuplicate | errNotMember | errWeight | errNoSeed | errSeed
deriving Repr, DecidableEq, Inhabited

/-- the per-signer loop: signature, uniqueness, committee membership — in this order, first failure wins -/
def checkSigners (members : List Member) : List SSig → List Nat → Verdict × List Nat
  | [], seen => (.ok, seen)
  | s :: rest, seen =>
    if !s.ok then (.errSignature, seen)
    else if seen.contains s.id then (.errDuplicate, seen)
    else if !(members.any (fun m => m.id == s.id)) then (.errNotMember, seen)
    else checkSigners members rest (seen ++ [s.id])

def validate (i : VInput) : Verdict :=
  if i.ctxCancelled then .errCtx
  else match i.block with
    | none => .errNilBlock
    | some b =>
      match i.proof with
      | none => .errNilProof
      | some p =>
        if p.ref.mtype != tC then .errType
        else if i.inst != p.ref.inst then .errInstance
        else if b.height != p.ref.height then .errHeight
        else if !commitmentOk (some b) p.ref.hash then .errCommitment
        else
          match checkSigners i.members p.nodes [] with
          | (.ok, ids) =>
            let weightOk := if i.soft then (Quorum.hasHonest ids i.members).1 else (Quorum.isQuorum ids i.members).1
            if !weightOk then .errWeight
            else if p.seedSigEmpty then .errNoSeed
            else if !p.seedOk then .errSeed
            else .ok
          | (e, _) => e

/-- `GenerateLeanHelixBlockProof`: the block ref of the first commit, all commit senders -/
def generate (commits : List CMsg) (seedOk : Bool) : Option BProof :=
  match commits with
  | [] => none        -- Go: index out of range on commitMessages[0]
  | c :: _ => some ⟨⟨tC, c.header.inst, c.header.height, c.header.view, c.header.hash⟩, commits.map (·.sender), false, seedOk⟩

end LeanHelix.BlockProof
