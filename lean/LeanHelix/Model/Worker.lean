import LeanHelix.Model.Term
import LeanHelix.Model.Filter
/-!
# Model of `WorkerLoop` (workerloop.go): the four `select` cases of `Run` as one step function

Composition of the height filter + future cache (`RawMessageFilter`), the current term
(`LeanHelixTerm` = share filter + `TermInCommittee`), the commit path
(`CommitsToProof → onCommit → onNewConsensusRound`, re-entering the cache drain) and node sync
(`handleUpdateState`).  The consumer's answers are inputs (`WSpi`, in call order); everything the
node does to the outside world is an output (`WOut`, in order).
-/
namespace LeanHelix.Worker
open LeanHelix LeanHelix.Msg LeanHelix.Contexts

/-- answers of the consumer, in call order -/
inductive WSpi where
  | term (a : Term.Spi)
  | commitCb (ok : Bool)                      -- the consumer's commit callback returned nil / an error
  | committee (ms : List Member)              -- `RequestOrderedCommittee`
deriving Repr, Inhabited

inductive WOut where
  | term (o : Term.Out)                       -- effects of the term (sends, SPI calls, timer registrations)
  | commitCb (b : Block) (ref : BlockRef) (signers : List SSig)   -- consumer commit callback with the block proof
  | newRound (h : Nat) (canBeFirstLeader : Bool)                  -- new-consensus-round callback
  | stopTimer                                 -- electionTrigger.Stop() (term disposed)
deriving Repr, Inhabited

structure WNode where
  me : Nat
  inst : Nat
  height : Nat := 0
  term : Option Term.Node := none      -- the in-committee term, if any
  hasHandler : Bool := false           -- a LeanHelixTerm (possibly out of committee) is installed in the filter
  cache : List (Nat × List Message) := []
  latest : Nat := 0
  reg : Reg := {}
deriving Repr, Inhabited

structure WW where
  n : WNode
  outs : List WOut := []
  spi : List WSpi := []
deriving Repr, Inhabited

def WW.emit (w : WW) (o : WOut) : WW := { w with outs := w.outs ++ [o] }

/-! top-level accessors of a message (`ConsensusMessage.BlockHeight / InstanceId / SenderMemberId`) -/
def msgHeight : Message → Nat
  | .preprepare m => m.c.header.height
  | .prepare m => m.header.height
  | .commit m => m.header.height
  | .viewChange m => m.c.header.height
  | .newView m => m.header.height

def msgInst : Message → Nat
  | .preprepare m => m.c.header.inst
  | .prepare m => m.header.inst
  | .commit m => m.header.inst
  | .viewChange m => m.c.header.inst
  | .newView m => m.header.inst

def msgSender : Message → Nat
  | .preprepare m => m.c.sender.id
  | .prepare m => m.sender.id
  | .commit m => m.sender.id
  | .viewChange m => m.c.sender.id
  | .newView m => m.sender.id

/-! ## the message cache (same shape as in `Model/Filter.lean`, over real messages) -/

def cacheGet (c : List (Nat × List Message)) (h : Nat) : List Message :=
  match c.find? (fun p => p.1 == h) with
  | some p => p.2
  | none => []

def clearEarlier (c : List (Nat × List Message)) (h : Nat) : List (Nat × List Message) :=
  c.filter (fun p => !(p.1 < h))

def cacheErase (c : List (Nat × List Message)) (h : Nat) : List (Nat × List Message) :=
  c.filter (fun p => !(p.1 == h))

def cacheAppend (c : List (Nat × List Message)) (h : Nat) (m : Message) : List (Nat × List Message) :=
  if c.any (fun p => p.1 == h) then c.map (fun p => if p.1 == h then (p.1, p.2 ++ [m]) else p)
  else c ++ [(h, [m])]

def pushToCache (n : WNode) (m : Message) : WNode :=
  let h := msgHeight m
  if h < n.latest then n
  else if h > n.latest then { n with cache := cacheAppend (clearEarlier n.cache h) h m, latest := h }
  else { n with cache := cacheAppend n.cache h m }

/-! ## running the term inside the worker -/

def termSpis (spi : List WSpi) : List Term.Spi × List WSpi :=
  -- the term consumes the leading run of term answers
  let pre := spi.takeWhile (fun a => match a with | .term _ => true | _ => false)
  (pre.filterMap (fun a => match a with | .term x => some x | _ => none), spi.drop pre.length)

/-- run one term-level function on the current term, threading registry, outputs and SPI answers -/
def withTerm (w : WW) (t : Term.Node) (f : Term.W → Term.W) : WW × Term.Node :=
  let (tspi, rest) := termSpis w.spi
  let tw := f { n := { t with reg := w.n.reg }, spi := tspi }
  let unused := tw.spi.map WSpi.term
  ({ w with n := { w.n with reg := tw.n.reg }, outs := w.outs ++ tw.outs.map WOut.term, spi := unused ++ rest }, tw.n)

def findCommit : List Term.Out → Option (Block × List CMsg)
  | [] => none
  | .commit b cs :: _ => some (b, cs)
  | _ :: rest => findCommit rest

/-- `GenerateLeanHelixBlockProof`: block ref of the first commit, all commit senders -/
def proofOf (cs : List CMsg) : BlockRef × List SSig :=
  match cs with
  | [] => (default, [])
  | c :: _ => (⟨tC, c.header.inst, c.header.height, c.header.view, c.header.hash⟩, cs.map (·.sender))

/-- `leanHelixTerm.Dispose()`: stops the election timer of the old in-committee term -/
def disposeTerm (w : WW) : WW :=
  let w := if w.n.term.isSome then w.emit .stopTimer else w
  { w with n := { w.n with term := none } }

/-- `requestOrderedCommitteePersist` under the term-level context (an empty committee when the context is refused) -/
def askCommittee (w : WW) (h : Nat) : WW × List Member :=
  let (r, res) := Contexts.step w.n.reg (.for_ ⟨h, Term.maxView⟩)
  let w := { w with n := { w.n with reg := r } }
  match res with
  | .ctx _ =>
    match w.spi with
    | .committee ms :: rest => ({ w with spi := rest }, ms)
    | _ => (w, [])
  | _ => (w, [])

/-- `NewTermInCommittee` + `startTerm` when this node is a committee member -/
def createTerm (w : WW) (h : Nat) (members : List Member) (canBeFirst : Bool) : WW :=
  if members.any (fun m => m.id == w.n.me) then
    if members.length < 4 then w.emit (.term (.goPanic "committee below hard minimum"))
    else
      let t : Term.Node := { cfg := ⟨w.n.me, w.n.inst, h, members⟩ }
      let (w, t) := withTerm w t (fun tw => Term.startTerm tw canBeFirst)
      { w with n := { w.n with term := some t } }
  else w

/-- the middle of `onNewConsensusRound`, after `SetHeightAndResetView(h)` succeeded: dispose the old
term, ask for the committee, create and start the new term (if this node is a member), report the
round, install the handler and clear older cache entries -/
def installTerm (w : WW) (h : Nat) (canBeFirst : Bool) : WW :=
  let w := disposeTerm w
  let (w, members) := askCommittee w h
  let w := createTerm w h members canBeFirst
  let w := { w with n := { w.n with hasHandler := true } }
  let w := w.emit (.newRound h canBeFirst)
  -- ConsumeCacheMessages: clearCacheEarlierThan
  { w with n := { w.n with cache := clearEarlier w.n.cache h } }

/-- hand one message of the node's height to the term; returns the commit the term asked for, if any -/
def handInTerm (w : WW) (t : Term.Node) (m : Message) : WW × Option (Block × List CMsg) :=
  let nouts := w.outs.length
  let (w, t) := withTerm w t (fun tw =>
    match m with
    | .preprepare x => Term.handlePrePrepare tw x
    | .prepare x => Term.handlePrepare tw x
    | .commit x => Term.handleCommit tw x
    | .viewChange x => Term.handleViewChange tw x
    | .newView x => Term.handleNewView tw x)
  let w := { w with n := { w.n with term := some t } }
  let newOuts := (w.outs.drop nouts).filterMap (fun o => match o with | .term x => some x | _ => none)
  (w, findCommit newOuts)

mutual
/-- `onNewConsensusRound(prevBlock, _, canBeFirstLeader)` where `prevH` is the previous block's height -/
def newRound : Nat → WW → Nat → Bool → WW
  | 0, w, _, _ => w
  | fuel + 1, w, prevH, canBeFirst =>
    let h := wrap64 (prevH + 1)
    let (r, res) := Contexts.step w.n.reg (.for_ ⟨h, 0⟩)
    let w := { w with n := { w.n with reg := r } }
    match res with
    | .ctx _ =>
      if w.n.height ≥ h then w                            -- SetHeightAndResetView refused
      else
        let w := installTerm { w with n := { w.n with height := h } } h canBeFirst
        let w := drain fuel w h (cacheGet w.n.cache h)
        { w with n := { w.n with cache := cacheErase w.n.cache h } }
    | _ => w

/-- deliver messages of `height` in order (`processConsensusMessage`), following commits into new rounds -/
def drain : Nat → WW → Nat → List Message → WW
  | 0, w, _, _ => w
  | _ + 1, w, _, [] => w
  | fuel + 1, w, height, m :: rest =>
    if w.n.height != height then w
    else if !w.n.hasHandler then drain fuel w height rest
    else match w.n.term with
      | none => drain fuel w height rest           -- out of committee: "ignoring message"
      | some t =>
        let (w, oc) := handInTerm w t m
        let w :=
          match oc with
          | none => w
          | some (b, cs) =>
            -- CommitsToProof → WorkerLoop.onCommit
            let (ref, signers) := proofOf cs
            let w := w.emit (.commitCb b ref signers)
            match w.spi with
            | .commitCb true :: sp => newRound fuel { w with spi := sp } b.height true
            | .commitCb false :: sp => { w with spi := sp }
            | _ => w
        drain fuel w height rest
end

/-- `HandleConsensusRawMessage` -/
def deliver (fuel : Nat) (w : WW) (m : Message) : WW :=
  if msgSender m == w.n.me then w
  else if msgHeight m < w.n.height then w
  else if msgInst m != w.n.inst then w
  else if msgHeight m > w.n.height then { w with n := pushToCache w.n m }
  else drain fuel w (msgHeight m) [m]

/-- the election case of `Run` -/
def election (w : WW) (h v : Nat) : WW :=
  let curView := match w.n.term with | some t => t.view | none => 0
  if w.n.height != h || curView != v then w
  else match w.n.term with
    | none => w
    | some t =>
      let (w, t) := withTerm w t (fun tw => Term.election tw h v)
      { w with n := { w.n with term := some t } }

/-- `handleUpdateState` for a block of height `bh` (0 for the genesis / nil block) -/
def updateState (fuel : Nat) (w : WW) (bh : Nat) : WW :=
  if bh ≥ w.n.height then newRound fuel w bh false else w

inductive WEvent where
  | deliver (m : Message)
  | election (h v : Nat)
  | update (blockHeight : Nat)
  | cancelOlder (h v : Nat)
  | shutdownCtx
deriving Repr, Inhabited

def step (fuel : Nat) (n : WNode) (e : WEvent) (spi : List WSpi) : WNode × List WOut :=
  let w : WW := { n := n, spi := spi }
  let w := match e with
    | .deliver m => deliver fuel w m
    | .election h v => election w h v
    | .update bh => updateState fuel w bh
    | .cancelOlder h v => { w with n := { w.n with reg := (Contexts.step w.n.reg (.cancelOlderThan ⟨h, v⟩)).1 } }
    | .shutdownCtx => { w with n := { w.n with reg := (Contexts.step w.n.reg .shutdown).1 } }
  (w.n, w.outs)

end LeanHelix.Worker
