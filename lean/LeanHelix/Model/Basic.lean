/-!
# Basic vocabulary shared by all models (core Lean only)

Go's `uint`, `uint64`, `primitives.View`, `primitives.BlockHeight`, `primitives.MemberWeight`
are 64-bit unsigned integers.  The models use `Nat` and make every wrap-around explicit with
`wrap64`, so that a theorem that needs "the total fits in 64 bits" has to say so.
-/
namespace LeanHelix

/-- 2^64 -/
def U64 : Nat := 18446744073709551616

theorem U64_eq : U64 = 2 ^ 64 := by decide

/-- Go unsigned 64-bit wrap-around -/
def wrap64 (n : Nat) : Nat := n % U64

theorem wrap64_of_lt {n : Nat} (h : n < U64) : wrap64 n = n := Nat.mod_eq_of_lt h

theorem wrap64_lt (n : Nat) : wrap64 n < U64 := Nat.mod_lt _ (by decide)

/-- a committee member: an opaque id and a 64-bit weight -/
structure Member where
  id : Nat
  weight : Nat
deriving Repr, DecidableEq, Inhabited

/-- outcome of an operation that in Go may return an error or panic -/
inductive Outcome (α : Type) where
  | ok (a : α)
  | err (kind : String)
  | panic (what : String)
deriving Repr

end LeanHelix
