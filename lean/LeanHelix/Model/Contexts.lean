import LeanHelix.Model.State
/-!
# Model of `state.ViewContexts` (state/view_contexts.go)

Contexts are numbered in the order they are created.  `cancelled` lists the ids whose own
`cancel()` has been called; a context is *done* iff its id is there or the registry was shut
down (all contexts are children of the parent context that `Shutdown` cancels).
-/
namespace LeanHelix.Contexts
open LeanHelix.State

structure Reg where
  live : List (HV × Nat) := []      -- hvToContext
  watermark : Option HV := none     -- newestHvCanceledOlder
  shutdown : Bool := false
  cancelled : List Nat := []        -- ids cancelled through CancelOlderThan
  next : Nat := 0                   -- number of contexts created so far
  issued : List (HV × Nat) := []    -- ghost: every (position, id) ever created (not in the Go code; influences nothing)
deriving Repr

inductive Op where
  | for_ (hv : HV)
  | cancelOlderThan (hv : HV)
  | shutdown
deriving Repr

inductive Res where
  | ctx (id : Nat)
  | errShutdown
  | errStale
  | unit
deriving Repr, DecidableEq

def lookup (l : List (HV × Nat)) (hv : HV) : Option Nat :=
  (l.find? (fun p => p.1 == hv)).map (·.2)

/-- `w.newestHvCanceledOlder != nil && hv.OlderThan(w.newestHvCanceledOlder)` -/
def isStale (r : Reg) (hv : HV) : Bool :=
  match r.watermark with
  | some w => hv.olderThan w
  | none => false

def step (r : Reg) : Op → Reg × Res
  | .for_ hv =>
      if r.shutdown then (r, .errShutdown)
      else if isStale r hv then (r, .errStale)
      else match lookup r.live hv with
        | some id => (r, .ctx id)
        | none => ({ r with live := (hv, r.next) :: r.live, next := r.next + 1, issued := (hv, r.next) :: r.issued }, .ctx r.next)
  | .cancelOlderThan hv =>
      let old := r.live.filter (fun p => p.1.olderThan hv)
      let keep := r.live.filter (fun p => !p.1.olderThan hv)
      let wm := match r.watermark with
        | none => some hv
        | some w => if w.olderThan hv then some hv else some w
      ({ r with live := keep, cancelled := old.map (·.2) ++ r.cancelled, watermark := wm }, .unit)
  | .shutdown => ({ r with shutdown := true }, .unit)

/-- `ctx.Err() != nil` for context `id` -/
def done (r : Reg) (id : Nat) : Bool := r.shutdown || r.cancelled.contains id

def run (r : Reg) (ops : List Op) : Reg := ops.foldl (fun r o => (step r o).1) r

end LeanHelix.Contexts
