/-!
# Executable model of the membuffers v0.3.2 wire format as used by lean-helix-go

Mirrors (read side) `InternalMessage._lazyCalcOffsets`, the field accessors and `Iterator.NextMessage`,
and (write side) `InternalBuilder.Write*` of github.com/orbs-network/membuffers@v0.3.2/go, together with
the schemas of `spec/types/go/protocol/lean_helix.mb.go`.

Layer 1 (generic, not nested): a message is a list of field values `FV`; nested messages are opaque bytes.
Layer 2 (typed): the LeanHelix structures, each with `encode`/`decode` through layer 1.

Everything is computable and total (structural recursion, one fuel recursion for the array iterator).
-/
namespace LeanHelix.Wire

abbrev Bytes := List UInt8

/-! ## little endian numbers -/

/-- `k` little-endian bytes of `n` (the value is truncated modulo `256^k`, like the Go conversions). -/
def leN : Nat → Nat → Bytes
  | 0, _ => []
  | k + 1, n => UInt8.ofNat (n % 256) :: leN k (n / 256)

def le16 (n : Nat) : Bytes := leN 2 n
def le32 (n : Nat) : Bytes := leN 4 n
def le64 (n : Nat) : Bytes := leN 8 n

/-- value of a little-endian byte string -/
def deLE : Bytes → Nat
  | [] => 0
  | b :: r => b.toNat + 256 * deLE r

def de16 (b : Bytes) : Nat := deLE (b.take 2)
def de32 (b : Bytes) : Nat := deLE (b.take 4)
def de64 (b : Bytes) : Nat := deLE (b.take 8)

/-! ## alignment -/

def zeros (n : Nat) : Bytes := List.replicate n 0

/-- number of padding bytes that bring offset `off` up to a multiple of `a` -/
def padLen (a off : Nat) : Nat := (a - off % a) % a

/-- `alignOffsetToType` -/
def alignUp (a off : Nat) : Nat := off + padLen a off

/-! ## generic layer -/

/-- field types that occur in the LeanHelix schemas; `union k` has `k` alternatives, all of them messages -/
inductive FT where
  | u16 | u64 | bytes | msg | msgArr
  | union (k : Nat)
  deriving DecidableEq, Repr

/-- field values; nested content is opaque -/
inductive FV where
  | u16 (n : Nat)
  | u64 (n : Nat)
  | bytes (b : Bytes)
  | msg (content : Bytes)
  | msgArr (contents : List Bytes)
  | union (idx : Nat) (content : Bytes)
  deriving DecidableEq, Repr

/-- `WriteMessageArray`, the part after the 4-byte total size: every element is a message field
(4-byte size, content); an element that is followed by another one is padded to a multiple of 4
(the builder aligns before each element; the array content itself starts at a multiple of 4). -/
def writeArr : List Bytes → Bytes
  | [] => []
  | [c] => le32 c.length ++ c
  | c :: c' :: cs => le32 c.length ++ c ++ zeros (padLen 4 c.length) ++ writeArr (c' :: cs)

/-- One field as the builder writes it when the message so far has `off` bytes: alignment padding first. -/
def FV.write (off : Nat) : FV → Bytes
  | .u16 n => zeros (padLen 2 off) ++ le16 n
  | .u64 n => zeros (padLen 4 off) ++ le64 n                -- sic: uint64 is aligned to 4
  | .bytes b => zeros (padLen 4 off) ++ le32 b.length ++ b
  | .msg c => zeros (padLen 4 off) ++ le32 c.length ++ c
  | .msgArr cs => zeros (padLen 4 off) ++ le32 (writeArr cs).length ++ writeArr cs
  | .union i c =>
      zeros (padLen 2 off) ++ le16 i ++ zeros (padLen 4 (alignUp 2 off + 2)) ++ le32 c.length ++ c

def writeFrom (off : Nat) : List FV → Bytes
  | [] => []
  | fv :: r => fv.write off ++ writeFrom (off + (fv.write off).length) r

/-- the builder: all fields in order, starting at offset 0 -/
def writeFields (fvs : List FV) : Bytes := writeFrom 0 fvs

/-! ### reader -/

def skip (n : Nat) (b : Bytes) : Option Bytes :=
  if n ≤ b.length then some (b.drop n) else none

def rdLE (k : Nat) (b : Bytes) : Option (Nat × Bytes) :=
  if k ≤ b.length then some (deLE (b.take k), b.drop k) else none

/-- 4-byte size, then that many bytes (content alignment is 1 for bytes, and 4 for messages and arrays,
where it never adds anything because the size header is 4 bytes at a multiple of 4) -/
def rdBlob (b : Bytes) : Option (Bytes × Bytes) :=
  match rdLE 4 b with
  | none => none
  | some (n, r) => if n ≤ r.length then some (r.take n, r.drop n) else none

/-- `Iterator.NextMessage` repeated while `HasNext`: the cursor is aligned up to 4 after each element;
a size header or a content running past the end yields one empty element and ends the iteration. -/
def parseArrF : Nat → Bytes → List Bytes
  | 0, _ => []
  | fuel + 1, b =>
    if b.isEmpty then [] else
    match rdBlob b with
    | none => [[]]
    | some (c, r) => c :: parseArrF fuel (r.drop (padLen 4 c.length))

def parseArr (b : Bytes) : List Bytes := parseArrF b.length b

/-- Read one field at offset `off`, `b` being the bytes from `off` to the end of the message.
Returns the value and the remaining bytes. -/
def FT.read (off : Nat) : FT → Bytes → Option (FV × Bytes)
  | .u16, b =>
    match skip (padLen 2 off) b with
    | none => none
    | some b => match rdLE 2 b with
      | none => none
      | some (n, r) => some (.u16 n, r)
  | .u64, b =>
    match skip (padLen 4 off) b with
    | none => none
    | some b => match rdLE 8 b with
      | none => none
      | some (n, r) => some (.u64 n, r)
  | .bytes, b =>
    match skip (padLen 4 off) b with
    | none => none
    | some b => match rdBlob b with
      | none => none
      | some (c, r) => some (.bytes c, r)
  | .msg, b =>
    match skip (padLen 4 off) b with
    | none => none
    | some b => match rdBlob b with
      | none => none
      | some (c, r) => some (.msg c, r)
  | .msgArr, b =>
    match skip (padLen 4 off) b with
    | none => none
    | some b => match rdBlob b with
      | none => none
      | some (c, r) => some (.msgArr (parseArr c), r)
  | .union k, b =>
    match skip (padLen 2 off) b with
    | none => none
    | some b => match rdLE 2 b with
      | none => none
      | some (i, r) =>
        if k ≤ i then none else
        match skip (padLen 4 (alignUp 2 off + 2)) r with
        | none => none
        | some r => match rdBlob r with
          | none => none
          | some (c, r) => some (.union i c, r)

/-- What the accessors return for a field that lies past the end of the message
(`fieldNum >= len(m.offsets)`). -/
def FT.default : FT → FV
  | .u16 => .u16 0
  | .u64 => .u64 0
  | .bytes => .bytes []
  | .msg => .msg []
  | .msgArr => .msgArr []
  | .union _ => .union 0xffff []

/-- `_lazyCalcOffsets` + accessors from offset `off` on: stops when the message ends exactly at a field
boundary (the remaining fields read as defaults), fails when padding, a size header or a content
runs past the end. -/
def parseFrom (off : Nat) : List FT → Bytes → Option (List FV)
  | [], _ => some []
  | ft :: fts, b =>
    if b.isEmpty then some ((ft :: fts).map FT.default) else
    match ft.read off b with
    | none => none
    | some (v, r) =>
      match parseFrom (off + (b.length - r.length)) fts r with
      | none => none
      | some vs => some (v :: vs)

/-- A message with scheme `fts`; trailing bytes are tolerated; the empty buffer is invalid. -/
def parseMsg (fts : List FT) (b : Bytes) : Option (List FV) :=
  if b.isEmpty || fts.isEmpty then none else parseFrom 0 fts b

/-! ### well-formed field lists: the value fits the type and the 4-byte size headers -/

def FV.ok : FT → FV → Bool
  | .u16, .u16 n => decide (n < 65536)
  | .u64, .u64 n => decide (n < 18446744073709551616)
  | .bytes, .bytes b => decide (b.length < 4294967296)
  | .msg, .msg c => decide (c.length < 4294967296)
  | .msgArr, .msgArr cs => cs.all (fun c => decide (c.length < 4294967296)) &&
      decide ((writeArr cs).length < 4294967296)
  | .union k, .union i c => decide (i < k) && decide (i < 65536) && decide (c.length < 4294967296)
  | _, _ => false

def fieldsOK : List FT → List FV → Bool
  | [], [] => true
  | ft :: fts, fv :: fvs => fv.ok ft && fieldsOK fts fvs
  | _, _ => false

/-! ## typed layer -/

def mapOpt {α β : Type} (f : α → Option β) : List α → Option (List β)
  | [] => some []
  | a :: as =>
    match f a, mapOpt f as with
    | some b, some bs => some (b :: bs)
    | _, _ => none

/-! ### BlockRef = [u64 InstanceId, u16 MessageType, u64 BlockHeight, u64 View, bytes BlockHash] -/

structure BlockRef where
  mtype : Nat
  inst : Nat
  height : Nat
  view : Nat
  hash : Bytes
  deriving DecidableEq, Repr

def BlockRef.scheme : List FT := [.u64, .u16, .u64, .u64, .bytes]
def BlockRef.fields (x : BlockRef) : List FV :=
  [.u64 x.inst, .u16 x.mtype, .u64 x.height, .u64 x.view, .bytes x.hash]
def BlockRef.encode (x : BlockRef) : Bytes := writeFields x.fields
def BlockRef.decode (b : Bytes) : Option BlockRef :=
  match parseMsg BlockRef.scheme b with
  | some [.u64 i, .u16 m, .u64 h, .u64 v, .bytes hash] => some ⟨m, i, h, v, hash⟩
  | _ => none
def BlockRef.WF (x : BlockRef) : Prop := fieldsOK BlockRef.scheme x.fields = true
instance (x : BlockRef) : Decidable x.WF := by unfold BlockRef.WF; infer_instance

/-! ### SenderSignature = [bytes MemberId, bytes Signature] -/

structure SenderSig where
  id : Bytes
  sig : Bytes
  deriving DecidableEq, Repr

def SenderSig.scheme : List FT := [.bytes, .bytes]
def SenderSig.fields (x : SenderSig) : List FV := [.bytes x.id, .bytes x.sig]
def SenderSig.encode (x : SenderSig) : Bytes := writeFields x.fields
def SenderSig.decode (b : Bytes) : Option SenderSig :=
  match parseMsg SenderSig.scheme b with
  | some [.bytes i, .bytes s] => some ⟨i, s⟩
  | _ => none
def SenderSig.WF (x : SenderSig) : Prop := fieldsOK SenderSig.scheme x.fields = true
instance (x : SenderSig) : Decidable x.WF := by unfold SenderSig.WF; infer_instance

/-! ### PreparedProof = [msg PreprepareBlockRef, msg PreprepareSender, msg PrepareBlockRef, msgarray PrepareSenders] -/

structure Proof where
  ppRef : BlockRef
  ppSender : SenderSig
  pRef : BlockRef
  pSenders : List SenderSig
  deriving DecidableEq, Repr

def Proof.scheme : List FT := [.msg, .msg, .msg, .msgArr]
def Proof.fields (x : Proof) : List FV :=
  [.msg x.ppRef.encode, .msg x.ppSender.encode, .msg x.pRef.encode, .msgArr (x.pSenders.map SenderSig.encode)]
def Proof.encode (x : Proof) : Bytes := writeFields x.fields
def Proof.decode (b : Bytes) : Option Proof :=
  match parseMsg Proof.scheme b with
  | some [.msg r1, .msg s1, .msg r2, .msgArr ss] =>
    match BlockRef.decode r1, SenderSig.decode s1, BlockRef.decode r2, mapOpt SenderSig.decode ss with
    | some r1, some s1, some r2, some ss => some ⟨r1, s1, r2, ss⟩
    | _, _, _, _ => none
  | _ => none
/-- the raw slices the reader hands out: `PreprepareBlockRef().Raw()`, `PreprepareSender().Raw()`,
`PrepareBlockRef().Raw()` and the elements of `PrepareSendersIterator()` -/
def Proof.raw (b : Bytes) : Option (Bytes × Bytes × Bytes × List Bytes) :=
  match parseMsg Proof.scheme b with
  | some [.msg r1, .msg s1, .msg r2, .msgArr ss] => some (r1, s1, r2, ss)
  | _ => none
def Proof.WF (x : Proof) : Prop :=
  x.ppRef.WF ∧ x.ppSender.WF ∧ x.pRef.WF ∧ (∀ s ∈ x.pSenders, s.WF) ∧
  fieldsOK Proof.scheme x.fields = true
instance (x : Proof) : Decidable x.WF := by unfold Proof.WF; infer_instance

/-! ### ViewChangeHeader = [u64 InstanceId, u16 MessageType, u64 BlockHeight, u64 View, msg PreparedProof]
A nil proof builder writes size 0; the reader side treats `len(proof.Raw()) == 0` as "no proof". -/

structure VCHeader where
  mtype : Nat
  inst : Nat
  height : Nat
  view : Nat
  proof : Option Proof
  deriving DecidableEq, Repr

def VCHeader.scheme : List FT := [.u64, .u16, .u64, .u64, .msg]
def VCHeader.proofBytes : Option Proof → Bytes
  | none => []
  | some p => p.encode
def VCHeader.fields (x : VCHeader) : List FV :=
  [.u64 x.inst, .u16 x.mtype, .u64 x.height, .u64 x.view, .msg (VCHeader.proofBytes x.proof)]
def VCHeader.encode (x : VCHeader) : Bytes := writeFields x.fields
def VCHeader.decode (b : Bytes) : Option VCHeader :=
  match parseMsg VCHeader.scheme b with
  | some [.u64 i, .u16 m, .u64 h, .u64 v, .msg p] =>
    if p.isEmpty then some ⟨m, i, h, v, none⟩ else
    match Proof.decode p with
    | some p => some ⟨m, i, h, v, some p⟩
    | none => none
  | _ => none
/-- `PreparedProof().Raw()` (empty = no proof) -/
def VCHeader.proofRaw (b : Bytes) : Option Bytes :=
  match parseMsg VCHeader.scheme b with
  | some [_, _, _, _, .msg p] => some p
  | _ => none
def VCHeader.proofWF : Option Proof → Prop
  | none => True
  | some p => p.WF
instance (p : Option Proof) : Decidable (VCHeader.proofWF p) := by
  cases p <;> (unfold VCHeader.proofWF; infer_instance)
def VCHeader.WF (x : VCHeader) : Prop :=
  VCHeader.proofWF x.proof ∧ fieldsOK VCHeader.scheme x.fields = true
instance (x : VCHeader) : Decidable x.WF := by unfold VCHeader.WF; infer_instance

/-! ### ViewChangeMessageContent = [msg SignedHeader : ViewChangeHeader, msg Sender] -/

structure VCContent where
  header : VCHeader
  sender : SenderSig
  deriving DecidableEq, Repr

def VCContent.scheme : List FT := [.msg, .msg]
def VCContent.fields (x : VCContent) : List FV := [.msg x.header.encode, .msg x.sender.encode]
def VCContent.encode (x : VCContent) : Bytes := writeFields x.fields
def VCContent.decode (b : Bytes) : Option VCContent :=
  match parseMsg VCContent.scheme b with
  | some [.msg h, .msg s] =>
    match VCHeader.decode h, SenderSig.decode s with
    | some h, some s => some ⟨h, s⟩
    | _, _ => none
  | _ => none
/-- `RawSignedHeader()`: the slice of the content holding the signed header -/
def VCContent.signedRaw (b : Bytes) : Option Bytes :=
  match parseMsg VCContent.scheme b with
  | some (.msg h :: _) => some h
  | _ => none
def VCContent.WF (x : VCContent) : Prop :=
  x.header.WF ∧ x.sender.WF ∧ fieldsOK VCContent.scheme x.fields = true
instance (x : VCContent) : Decidable x.WF := by unfold VCContent.WF; infer_instance

/-! ### NewViewHeader = [u64 InstanceId, u16 MessageType, u64 BlockHeight, u64 View, msgarray ViewChangeConfirmations] -/

structure NVHeader where
  mtype : Nat
  inst : Nat
  height : Nat
  view : Nat
  votes : List VCContent
  deriving DecidableEq, Repr

def NVHeader.scheme : List FT := [.u64, .u16, .u64, .u64, .msgArr]
def NVHeader.fields (x : NVHeader) : List FV :=
  [.u64 x.inst, .u16 x.mtype, .u64 x.height, .u64 x.view, .msgArr (x.votes.map VCContent.encode)]
def NVHeader.encode (x : NVHeader) : Bytes := writeFields x.fields
def NVHeader.decode (b : Bytes) : Option NVHeader :=
  match parseMsg NVHeader.scheme b with
  | some [.u64 i, .u16 m, .u64 h, .u64 v, .msgArr vs] =>
    match mapOpt VCContent.decode vs with
    | some vs => some ⟨m, i, h, v, vs⟩
    | none => none
  | _ => none
/-- the raw elements of `ViewChangeConfirmationsIterator()` -/
def NVHeader.votesRaw (b : Bytes) : Option (List Bytes) :=
  match parseMsg NVHeader.scheme b with
  | some [_, _, _, _, .msgArr vs] => some vs
  | _ => none
def NVHeader.WF (x : NVHeader) : Prop :=
  (∀ v ∈ x.votes, v.WF) ∧ fieldsOK NVHeader.scheme x.fields = true
instance (x : NVHeader) : Decidable x.WF := by unfold NVHeader.WF; infer_instance

/-! ### PreprepareContent = PrepareContent = [msg SignedHeader : BlockRef, msg Sender] -/

structure PPContent where
  header : BlockRef
  sender : SenderSig
  deriving DecidableEq, Repr

def PPContent.scheme : List FT := [.msg, .msg]
def PPContent.fields (x : PPContent) : List FV := [.msg x.header.encode, .msg x.sender.encode]
def PPContent.encode (x : PPContent) : Bytes := writeFields x.fields
def PPContent.decode (b : Bytes) : Option PPContent :=
  match parseMsg PPContent.scheme b with
  | some [.msg h, .msg s] =>
    match BlockRef.decode h, SenderSig.decode s with
    | some h, some s => some ⟨h, s⟩
    | _, _ => none
  | _ => none
def PPContent.signedRaw (b : Bytes) : Option Bytes :=
  match parseMsg PPContent.scheme b with
  | some (.msg h :: _) => some h
  | _ => none
def PPContent.WF (x : PPContent) : Prop :=
  x.header.WF ∧ x.sender.WF ∧ fieldsOK PPContent.scheme x.fields = true
instance (x : PPContent) : Decidable x.WF := by unfold PPContent.WF; infer_instance

/-! ### CommitContent = [msg SignedHeader : BlockRef, msg Sender, bytes Share] -/

structure CContent where
  header : BlockRef
  sender : SenderSig
  share : Bytes
  deriving DecidableEq, Repr

def CContent.scheme : List FT := [.msg, .msg, .bytes]
def CContent.fields (x : CContent) : List FV := [.msg x.header.encode, .msg x.sender.encode, .bytes x.share]
def CContent.encode (x : CContent) : Bytes := writeFields x.fields
def CContent.decode (b : Bytes) : Option CContent :=
  match parseMsg CContent.scheme b with
  | some [.msg h, .msg s, .bytes sh] =>
    match BlockRef.decode h, SenderSig.decode s with
    | some h, some s => some ⟨h, s, sh⟩
    | _, _ => none
  | _ => none
def CContent.signedRaw (b : Bytes) : Option Bytes :=
  match parseMsg CContent.scheme b with
  | some (.msg h :: _) => some h
  | _ => none
def CContent.WF (x : CContent) : Prop :=
  x.header.WF ∧ x.sender.WF ∧ fieldsOK CContent.scheme x.fields = true
instance (x : CContent) : Decidable x.WF := by unfold CContent.WF; infer_instance

/-! ### NewViewMessageContent = [msg SignedHeader : NewViewHeader, msg Sender, msg Message : PreprepareContent] -/

structure NVContent where
  header : NVHeader
  sender : SenderSig
  pp : PPContent
  deriving DecidableEq, Repr

def NVContent.scheme : List FT := [.msg, .msg, .msg]
def NVContent.fields (x : NVContent) : List FV :=
  [.msg x.header.encode, .msg x.sender.encode, .msg x.pp.encode]
def NVContent.encode (x : NVContent) : Bytes := writeFields x.fields
def NVContent.decode (b : Bytes) : Option NVContent :=
  match parseMsg NVContent.scheme b with
  | some [.msg h, .msg s, .msg p] =>
    match NVHeader.decode h, SenderSig.decode s, PPContent.decode p with
    | some h, some s, some p => some ⟨h, s, p⟩
    | _, _, _ => none
  | _ => none
def NVContent.signedRaw (b : Bytes) : Option Bytes :=
  match parseMsg NVContent.scheme b with
  | some (.msg h :: _) => some h
  | _ => none
def NVContent.WF (x : NVContent) : Prop :=
  x.header.WF ∧ x.sender.WF ∧ x.pp.WF ∧ fieldsOK NVContent.scheme x.fields = true
instance (x : NVContent) : Decidable x.WF := by unfold NVContent.WF; infer_instance

/-! ### LeanhelixContent = [union {0 Preprepare, 1 Prepare, 2 Commit, 3 ViewChange, 4 NewView}] -/

inductive Content where
  | preprepare (c : PPContent)
  | prepare (c : PPContent)
  | commit (c : CContent)
  | viewChange (c : VCContent)
  | newView (c : NVContent)
  deriving DecidableEq, Repr

def Content.scheme : List FT := [.union 5]
def Content.fields : Content → List FV
  | .preprepare c => [.union 0 c.encode]
  | .prepare c => [.union 1 c.encode]
  | .commit c => [.union 2 c.encode]
  | .viewChange c => [.union 3 c.encode]
  | .newView c => [.union 4 c.encode]
def Content.encode (x : Content) : Bytes := writeFields x.fields
def Content.decode (b : Bytes) : Option Content :=
  match parseMsg Content.scheme b with
  | some [.union 0 c] => (PPContent.decode c).map .preprepare
  | some [.union 1 c] => (PPContent.decode c).map .prepare
  | some [.union 2 c] => (CContent.decode c).map .commit
  | some [.union 3 c] => (VCContent.decode c).map .viewChange
  | some [.union 4 c] => (NVContent.decode c).map .newView
  | _ => none
/-- the raw bytes of the signed header of whatever content the top-level union holds -/
def Content.signedRaw (b : Bytes) : Option Bytes :=
  match parseMsg Content.scheme b with
  | some [.union 0 c] => PPContent.signedRaw c
  | some [.union 1 c] => PPContent.signedRaw c
  | some [.union 2 c] => CContent.signedRaw c
  | some [.union 3 c] => VCContent.signedRaw c
  | some [.union 4 c] => NVContent.signedRaw c
  | _ => none
/-- the builder output for the header, i.e. the bytes that get signed -/
def Content.headerBytes : Content → Bytes
  | .preprepare c => c.header.encode
  | .prepare c => c.header.encode
  | .commit c => c.header.encode
  | .viewChange c => c.header.encode
  | .newView c => c.header.encode
def Content.WF : Content → Prop
  | .preprepare c => c.WF ∧ fieldsOK Content.scheme (Content.fields (.preprepare c)) = true
  | .prepare c => c.WF ∧ fieldsOK Content.scheme (Content.fields (.prepare c)) = true
  | .commit c => c.WF ∧ fieldsOK Content.scheme (Content.fields (.commit c)) = true
  | .viewChange c => c.WF ∧ fieldsOK Content.scheme (Content.fields (.viewChange c)) = true
  | .newView c => c.WF ∧ fieldsOK Content.scheme (Content.fields (.newView c)) = true
instance (x : Content) : Decidable x.WF := by cases x <;> (unfold Content.WF; infer_instance)

/-! ### BlockProof = [msg BlockRef, msgarray Nodes : SenderSignature, bytes RandomSeedSignature] -/

structure BlockProof where
  ref : BlockRef
  nodes : List SenderSig
  seed : Bytes
  deriving DecidableEq, Repr

def BlockProof.scheme : List FT := [.msg, .msgArr, .bytes]
def BlockProof.fields (x : BlockProof) : List FV :=
  [.msg x.ref.encode, .msgArr (x.nodes.map SenderSig.encode), .bytes x.seed]
def BlockProof.encode (x : BlockProof) : Bytes := writeFields x.fields
def BlockProof.decode (b : Bytes) : Option BlockProof :=
  match parseMsg BlockProof.scheme b with
  | some [.msg r, .msgArr ns, .bytes s] =>
    match BlockRef.decode r, mapOpt SenderSig.decode ns with
    | some r, some ns => some ⟨r, ns, s⟩
    | _, _ => none
  | _ => none
/-- `RawBlockRef()` -/
def BlockProof.refRaw (b : Bytes) : Option Bytes :=
  match parseMsg BlockProof.scheme b with
  | some (.msg r :: _) => some r
  | _ => none
def BlockProof.WF (x : BlockProof) : Prop :=
  x.ref.WF ∧ (∀ s ∈ x.nodes, s.WF) ∧ fieldsOK BlockProof.scheme x.fields = true
instance (x : BlockProof) : Decidable x.WF := by unfold BlockProof.WF; infer_instance

end LeanHelix.Wire
