import LeanHelix.Model.Basic
/-!
# Model of leader rotation (`calcLeaderOfViewAndCommittee`, term_in_committee.go)

```go
index := int(uint64(view) % uint64(len(committeeMembers)))   // after the fix: commit (was int(view) % len)
return committeeMembers[index].Id
```
`view` is a `uint64`; the model takes it as a `Nat` below 2^64.  An empty committee makes Go
panic (integer divide by zero); `NewTermInCommittee` refuses committees below 4 members.
-/
namespace LeanHelix.Leader
open LeanHelix

def leaderIndex (view n : Nat) : Nat := view % n

def leaderOf (view : Nat) (ms : List Member) : Outcome Nat :=
  match ms[leaderIndex view ms.length]? with
  | some m => .ok m.id
  | none => .panic "index out of range / divide by zero"

def isLeader (cand view : Nat) (ms : List Member) : Bool :=
  match leaderOf view ms with
  | .ok l => l == cand
  | _ => false

end LeanHelix.Leader
