import LeanHelix.Model.Basic
/-!
# Model of services/quorum/quorum.go

Follows the Go code line by line: `uint` sums wrap modulo 2^64, `calcF` is the integer
`(totalWeight-1)/3` (after the `fix:` commit that removed the float64 detour; the
correspondence suite `quorum` compares every function below with the real one on boundary
classes around 2^53, 2^63, 2^64).
-/
namespace LeanHelix.Quorum
open LeanHelix

/-- `sum := uint(0); for w in weights { sum += uint(w) }` -/
def sumWeights (ws : List Nat) : Nat := ws.foldl (fun s w => wrap64 (s + w)) 0

/-- `calcF(totalWeight uint) = (totalWeight - 1) / 3` in `uint` arithmetic -/
def calcF (total : Nat) : Nat := wrap64 (total + U64 - 1) / 3

def calcQuorumWeight (ws : List Nat) : Nat :=
  let sum := sumWeights ws
  if sum = 0 then 1 else sum - calcF sum

def calcByzMaxWeight (ws : List Nat) : Nat :=
  let sum := sumWeights ws
  if sum = 0 then sum else calcF sum

def getWeights (ms : List Member) : List Nat := ms.map (·.weight)

/-- `getCommitteeSubsetWeight`: the subset becomes a set of ids; each committee member whose id is
in the set contributes its weight once (per occurrence *in the committee list*). -/
def subsetWeight (subset : List Nat) (ms : List Member) : Nat :=
  ms.foldl (fun s m => if subset.contains m.id then wrap64 (s + m.weight) else s) 0

/-- `IsQuorum` returns `(weight >= q, weight, q)` -/
def isQuorum (subset : List Nat) (ms : List Member) : Bool × Nat × Nat :=
  let weight := subsetWeight subset ms
  let q := calcQuorumWeight (getWeights ms)
  (decide (weight ≥ q), weight, q)

/-- `HasHonest` returns `(weight > b, weight, b)` -/
def hasHonest (subset : List Nat) (ms : List Member) : Bool × Nat × Nat :=
  let weight := subsetWeight subset ms
  let b := calcByzMaxWeight (getWeights ms)
  (decide (weight > b), weight, b)

end LeanHelix.Quorum
