import LeanHelix.Model.Basic
/-!
# Model of `TimerBasedElectionTrigger.CalcTimeout` (after the saturating `fix:` commit)

```go
if t.minTimeout <= 0 { return t.minTimeout }
if view >= 63 { return time.Duration(math.MaxInt64) }
timeoutMultiplier := time.Duration(int64(math.Pow(TIMEOUT_EXP_BASE, float64(view))))   // exact 2^view for view < 63
if timeoutMultiplier > time.Duration(math.MaxInt64)/t.minTimeout { return time.Duration(math.MaxInt64) }
return timeoutMultiplier * t.minTimeout
```
`time.Duration` is an `int64` number of nanoseconds.
-/
namespace LeanHelix.Timeout

def maxInt64 : Int := 9223372036854775807

def calcTimeout (base : Int) (view : Nat) : Int :=
  if base ≤ 0 then base
  else if view ≥ 63 then maxInt64
  else
    let m : Int := (2 : Int) ^ view
    if m > maxInt64 / base then maxInt64 else m * base

end LeanHelix.Timeout
