import LeanHelix.Model.Basic
/-!
# Model of `RawMessageFilter` (services/rawmessagesfilter/raw_message_filter.go) together with the
re-entrant way `WorkerLoop` uses it

`HandleConsensusRawMessage` classifies a message (own / past / other instance / future / current);
future messages go to a cache limited to the newest future height; `ConsumeCacheMessages` installs
the handler of the new term and drains the cache of the node's height.  A delivered message may make
the term commit, which makes the worker start the next round *inside* the delivery
(`HandleCommit → onCommit → onNewConsensusRound → ConsumeCacheMessages`): the model makes this
nesting explicit.  What a delivered message makes the term do is an input (`script`): `k > 0` means
"the handler that receives it, if it has not committed yet, starts the round of its height + k".

After the `fix:` commit the drain loop stops as soon as the node has left the height being
drained (`if f.state.Height() != height { break }`); the model follows that code.
-/
namespace LeanHelix.Filter

structure FMsg where
  uid : Nat
  height : Nat
  inst : Nat
  sender : Nat
  script : Nat
deriving Repr, DecidableEq, Inhabited

structure Filt where
  me : Nat
  inst : Nat
  stateHeight : Nat := 0
  handler : Option (Nat × Bool) := none     -- (height of the installed term, it has committed)
  cache : List (Nat × List FMsg) := []      -- futureCache (keys distinct)
  latest : Nat := 0                         -- latestFutureBlockHeight
  log : List (Nat × FMsg) := []             -- ghost: deliveries (term height, message), oldest first
deriving Repr

def cacheGet (c : List (Nat × List FMsg)) (h : Nat) : List FMsg :=
  match c.find? (fun p => p.1 == h) with
  | some p => p.2
  | none => []

/-- `clearCacheEarlierThan` -/
def clearEarlier (c : List (Nat × List FMsg)) (h : Nat) : List (Nat × List FMsg) :=
  c.filter (fun p => !(p.1 < h))

def cacheErase (c : List (Nat × List FMsg)) (h : Nat) : List (Nat × List FMsg) :=
  c.filter (fun p => !(p.1 == h))

def cacheAppend (c : List (Nat × List FMsg)) (h : Nat) (m : FMsg) : List (Nat × List FMsg) :=
  if c.any (fun p => p.1 == h) then c.map (fun p => if p.1 == h then (p.1, p.2 ++ [m]) else p)
  else c ++ [(h, [m])]

/-- `pushToCache` -/
def pushToCache (f : Filt) (m : FMsg) : Filt :=
  if m.height < f.latest then f
  else if m.height > f.latest then
    { f with cache := cacheAppend (clearEarlier f.cache m.height) m.height m, latest := m.height }
  else { f with cache := cacheAppend f.cache m.height m }

/-- the delivery of `m` to the term of height `t` is recorded (ghost) -/
def logDelivery (f : Filt) (t : Nat) (m : FMsg) : Filt := { f with log := f.log ++ [(t, m)] }

/-- the term of height `t` has set `committedBlock` -/
def markCommitted (f : Filt) (t : Nat) : Filt := { f with handler := some (t, true) }

/-- `onNewConsensusRound` up to the drain: `SetHeightAndResetView(h)` succeeded, the new term is
installed as handler, `clearCacheEarlierThan(h)` -/
def startRound (f : Filt) (h : Nat) : Filt :=
  { f with stateHeight := h, handler := some (h, false), cache := clearEarlier f.cache h }

/-- `delete(f.futureCache, height)` at the end of `ConsumeCacheMessages` -/
def finishDrain (f : Filt) (h : Nat) : Filt := { f with cache := cacheErase f.cache h }

/-- Deliver `msgs` in order to the installed handler (the body of the drain loop, and of a single
current-height delivery), following nested round starts.  One unit of fuel per delivered message. -/
def drain : Nat → Filt → Nat → List FMsg → Filt
  | 0, f, _, _ => f
  | _ + 1, f, _, [] => f
  | fuel + 1, f, height, m :: rest =>
    if f.stateHeight != height then f            -- the node moved on: stop draining this height
    else
      match f.handler with
      | none => drain fuel f height rest         -- "consensusMessagesHandler is nil, ignoring"
      | some (t, committed) =>
        let f := logDelivery f t m
        if m.script > 0 && !committed then
          let f := markCommitted f t
          let h' := t + m.script
          if f.stateHeight ≥ h' then drain fuel f height rest     -- SetHeightAndResetView refused
          else
            -- onNewConsensusRound: height moves, new term installed, ConsumeCacheMessages (nested)
            let f := startRound f h'
            let f := drain fuel f h' (cacheGet f.cache h')
            let f := finishDrain f h'
            drain fuel f height rest
        else drain fuel f height rest

/-- `onNewConsensusRound` as far as the filter is concerned: `SetHeightAndResetView(h)`; on success
`ConsumeCacheMessages(handler of h)`. -/
def advance (fuel : Nat) (f : Filt) (h : Nat) : Filt :=
  if f.stateHeight ≥ h then f
  else
    let f := startRound f h
    let f := drain fuel f h (cacheGet f.cache h)
    finishDrain f h

/-- `HandleConsensusRawMessage` -/
def recv (fuel : Nat) (f : Filt) (m : FMsg) : Filt :=
  if m.sender == f.me then f
  else if m.height < f.stateHeight then f
  else if m.inst != f.inst then f
  else if m.height > f.stateHeight then pushToCache f m
  else drain fuel f m.height [m]

inductive Op where
  | recv (m : FMsg)
  | advance (h : Nat)
deriving Repr

def step (fuel : Nat) (f : Filt) : Op → Filt
  | .recv m => recv fuel f m
  | .advance h => advance fuel f h

end LeanHelix.Filter
