import LeanHelix.Model.Basic
import LeanHelix.Model.Quorum
