package main

// Directed scenarios added in round 6 (appended at the end of the node suite).

import (
	"fmt"

	"github.com/orbs-network/lean-helix-go/spec/types/go/protocol"
)

// heavy-laggard: weights (1,1,1,7), Q = 7: member 3 alone holds quorum weight, so a PREPREPARE completes its
// whole round inside its own delivery.  The Byzantine member 0 (weight 1) leads view 0 of every height.  While
// member 3 is still at height 1 it receives the proposal of height 2 several times (future cache), then the
// proposal of height 1: it commits height 1, starts height 2, drains the cache — the first cached proposal
// commits height 2 and starts height 3 inside the drain — and the other cached proposals of height 2 are then
// messages of a past height: they must go nowhere.  Heights handed to the commit callback stay strictly increasing.
func scenarioHeavyLaggard(c *Ctx) *Net {
	net := NewNet(c, NetOpts{N: 4, Weights: []uint64{1, 1, 1, 7}, ByzIdx: []int{0}, Inst: 100}, "heavy-laggard weights=[1 1 1 7] byz=[0]")
	net.timely = true
	net.start()
	a := net.adv
	inst := uint64(100)
	byz := memberId(0)
	heavy := net.nodes[string(memberId(3))]
	if heavy == nil {
		c.Class("scenario/heavy-laggard/not-reached")
		return net
	}
	x1, x2, x3 := a.newBlock(1, false), a.newBlock(2, false), a.newBlock(3, false)
	pp2 := a.mkPP(byz, inst, 2, 0, x2)
	a.inject(heavy, pp2, "future-pp")
	a.inject(heavy, a.mkP(byz, protocol.LEAN_HELIX_PREPARE, inst, 2, 0, blockHash(x2)), "future-prepare-by-leader")
	a.inject(heavy, pp2, "future-pp-duplicate")
	a.inject(heavy, pp2, "future-pp-duplicate")
	a.inject(heavy, a.mkPP(byz, inst, 1, 0, x1), "byz-pp")
	a.inject(heavy, pp2, "past-pp")
	a.inject(heavy, a.mkPP(byz, inst, 3, 0, x3), "byz-pp")
	net.drainExcept("")
	return net
}

// sync-without-proof: every member is synced to block 4 by a consumer that hands over no proof bytes (the
// library does not inspect them at sync time).  Whoever leads view 0 of height 5 entered that round by sync: it
// must not propose.  The scenario ends there (a node synced without the proof derives another random seed, so
// its later seed shares are of no use to its peers: that is the consumer's doing, not judged here).
func scenarioSyncWithoutProof(c *Ctx) *Net {
	net := NewNet(c, NetOpts{N: 4, Weights: []uint64{1, 1, 1, 1}, Inst: 100}, "sync-without-proof n=4")
	net.timely = true
	net.start()
	net.pool = nil
	for _, n := range net.order {
		n := n
		b := &FakeBlock{H: 4, Id: 900004}
		net.event(n, fmt.Sprintf("update %d", 4), func() (string, string) { return n.Update(b, nil) })
	}
	net.pool = nil
	return net
}
