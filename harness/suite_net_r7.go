package main

// after-accept mutations (round 7): a validation step that is skipped "because this sender / signature / share /
// proposal was already checked" can only be seen by a victim that HAS checked it.  In these scenarios every
// delivery of honest traffic to a correct member is followed at once by deliveries, to the same member, of
// variants of that very message in which one field differs and everything else — above all the signature
// bytes — is the original's.  None of them may be acted upon.

import (
	"fmt"

	"github.com/orbs-network/lean-helix-go/services/interfaces"
	"github.com/orbs-network/lean-helix-go/spec/types/go/primitives"
	"github.com/orbs-network/lean-helix-go/spec/types/go/protocol"
)

func (a *Adversary) variantsKeepingSignatures(raw *interfaces.ConsensusRawMessage, others [][]byte) []*interfaces.ConsensusRawMessage {
	var out []*interfaces.ConsensusRawMessage
	type ref struct {
		t          protocol.MessageType
		inst, h, v uint64
		hash       []byte
	}
	variants := func(r ref) []ref {
		vs := []ref{
			{r.t, r.inst, r.h, r.v + 1, r.hash},
			{r.t, r.inst, r.h + 1, r.v, r.hash},
			{r.t, r.inst + 1, r.h, r.v, r.hash},
			{r.t, r.inst, r.h, r.v, append(append([]byte{}, r.hash...), 0x01)},
		}
		if r.v > 0 {
			vs = append(vs, ref{r.t, r.inst, r.h, r.v - 1, r.hash})
		}
		return vs
	}
	switch m := interfaces.ToConsensusMessage(raw).(type) {
	case *interfaces.PrepareMessage:
		hd, snd := m.Content().SignedHeader(), m.Content().Sender()
		base := ref{hd.MessageType(), uint64(hd.InstanceId()), uint64(hd.BlockHeight()), uint64(hd.View()), hd.BlockHash()}
		for _, r := range variants(base) {
			c := &protocol.PrepareContentBuilder{SignedHeader: a.refB(r.t, r.inst, r.h, r.v, r.hash), Sender: &protocol.SenderSignatureBuilder{MemberId: snd.MemberId(), Signature: snd.Signature()}}
			out = append(out, interfaces.NewPrepareMessage(c.Build()).ToConsensusRawMessage())
		}
		for _, o := range others { // the same signature bytes under another member's name
			c := &protocol.PrepareContentBuilder{SignedHeader: a.refB(base.t, base.inst, base.h, base.v, base.hash), Sender: &protocol.SenderSignatureBuilder{MemberId: o, Signature: snd.Signature()}}
			out = append(out, interfaces.NewPrepareMessage(c.Build()).ToConsensusRawMessage())
		}
		// the PREPARE's signature under a COMMIT header of the same (height, view, hash), with a share of the sender's own making
		cc := &protocol.CommitContentBuilder{SignedHeader: a.refB(protocol.LEAN_HELIX_COMMIT, base.inst, base.h, base.v, base.hash), Sender: &protocol.SenderSignatureBuilder{MemberId: snd.MemberId(), Signature: snd.Signature()}, Share: a.share(snd.MemberId(), base.h)}
		out = append(out, interfaces.NewCommitMessage(cc.Build()).ToConsensusRawMessage())
	case *interfaces.CommitMessage:
		hd, snd := m.Content().SignedHeader(), m.Content().Sender()
		base := ref{hd.MessageType(), uint64(hd.InstanceId()), uint64(hd.BlockHeight()), uint64(hd.View()), hd.BlockHash()}
		for _, r := range variants(base) {
			c := &protocol.CommitContentBuilder{SignedHeader: a.refB(r.t, r.inst, r.h, r.v, r.hash), Sender: &protocol.SenderSignatureBuilder{MemberId: snd.MemberId(), Signature: snd.Signature()}, Share: m.Content().Share()}
			out = append(out, interfaces.NewCommitMessage(c.Build()).ToConsensusRawMessage())
		}
		for _, o := range others { // another member's genuine header signature (made here with its key only if it is Byzantine) cannot be had; but the share can be lent: a Byzantine COMMIT carrying this verified share
			if a.isByz(o) {
				ref := a.refB(base.t, base.inst, base.h, base.v, base.hash)
				c := &protocol.CommitContentBuilder{SignedHeader: ref, Sender: a.senderB(o, base.h, ref.Build().Raw()), Share: m.Content().Share()}
				out = append(out, interfaces.NewCommitMessage(c.Build()).ToConsensusRawMessage())
			}
		}
	case *interfaces.PreprepareMessage:
		hd, snd := m.Content().SignedHeader(), m.Content().Sender()
		base := ref{hd.MessageType(), uint64(hd.InstanceId()), uint64(hd.BlockHeight()), uint64(hd.View()), hd.BlockHash()}
		for _, r := range variants(base) {
			c := &protocol.PreprepareContentBuilder{SignedHeader: a.refB(r.t, r.inst, r.h, r.v, r.hash), Sender: &protocol.SenderSignatureBuilder{MemberId: snd.MemberId(), Signature: snd.Signature()}}
			out = append(out, interfaces.NewPreprepareMessage(c.Build(), m.Block()).ToConsensusRawMessage())
		}
		// the same signed header with another block body
		c := &protocol.PreprepareContentBuilder{SignedHeader: a.refB(base.t, base.inst, base.h, base.v, base.hash), Sender: &protocol.SenderSignatureBuilder{MemberId: snd.MemberId(), Signature: snd.Signature()}}
		out = append(out, interfaces.NewPreprepareMessage(c.Build(), a.newBlock(base.h, false)).ToConsensusRawMessage())
	case *interfaces.ViewChangeMessage:
		if cs := interfaces.ExtractConfirmationsFromViewChangeMessages([]*interfaces.ViewChangeMessage{m}); len(cs) == 1 {
			hd := m.Content().SignedHeader()
			for _, dv := range []uint64{1, 2} {
				h2 := &protocol.ViewChangeHeaderBuilder{MessageType: hd.MessageType(), InstanceId: hd.InstanceId(), BlockHeight: hd.BlockHeight(), View: hd.View() + primitives.View(dv), PreparedProof: cs[0].SignedHeader.PreparedProof}
				c := &protocol.ViewChangeMessageContentBuilder{SignedHeader: h2, Sender: cs[0].Sender}
				out = append(out, interfaces.NewViewChangeMessage(c.Build(), m.Block()).ToConsensusRawMessage())
			}
			if cs[0].SignedHeader.PreparedProof != nil { // the vote without its proof, same signature
				h2 := &protocol.ViewChangeHeaderBuilder{MessageType: hd.MessageType(), InstanceId: hd.InstanceId(), BlockHeight: hd.BlockHeight(), View: hd.View()}
				c := &protocol.ViewChangeMessageContentBuilder{SignedHeader: h2, Sender: cs[0].Sender}
				out = append(out, interfaces.NewViewChangeMessage(c.Build(), nil).ToConsensusRawMessage())
			}
		}
	}
	return out
}

func scenarioAfterAcceptMutations(c *Ctx, k int) *Net {
	ws := [][]uint64{{1, 1, 1, 1}, {1, 2, 3, 4}, {1, 1, 1, 1, 1, 1, 1}}[k%3]
	byz := [][]int{{3}, {2}, {1, 2}}[k%3]
	net := NewNet(c, NetOpts{N: len(ws), Weights: ws, ByzIdx: byz, Inst: 100, IdScheme: []int{0, 1, 2}[(k/3)%3]}, fmt.Sprintf("after-accept-mutations %d weights=%v byz=%v", k, ws, byz))
	var ids [][]byte
	for _, m := range net.members {
		ids = append(ids, m.Id)
	}
	net.afterDeliver = func(n *RealNode, f *Flight) {
		var others [][]byte
		for _, id := range ids {
			if string(id) != string(f.From) && string(id) != string(n.Id) {
				others = append(others, id)
			}
		}
		if len(others) > 2 {
			others = others[:2]
		}
		for _, v := range net.adv.variantsKeepingSignatures(f.Raw, others) {
			net.adv.inject(n, v, "after-accept-variant")
		}
	}
	prof := SchedProfile{Drop: 40, Dup: 20, Timeout: 60 + 40*(k%3), StaleTimeout: 100, Sync: 0, Byz: 30, CancelDuring: 0, CommitFail: 0, MaxSteps: 160, MaxHeight: 2}
	net.run(prof)
	net.afterDeliver = nil
	return net
}

// minority-prepared-stalled (honest members only): like minority-prepared-overridden up to the NEW_VIEW of view 1
// (member 2 is prepared on A in view 0, the leader of view 1 was elected without its vote and proposes B), but
// view 1 stalls: the PREPAREs for B are lost and everybody times out again.  Member 2 accepted the NEW_VIEW but
// never became prepared on B: its vote for view 2 must still carry the proof of view 0 and block A.
func scenarioMinorityPreparedStalled(c *Ctx) *Net {
	net := NewNet(c, NetOpts{N: 4, Weights: []uint64{1, 2, 3, 4}, Inst: 100}, "minority-prepared-stalled weights=[1 2 3 4]")
	net.timely = true
	net.start()
	m2 := net.nodes[string(memberId(2))]
	net.deliverWhere(func(f *Flight) bool { return typOf(f) == "*interfaces.PreprepareMessage" })
	net.deliverWhere(func(f *Flight) bool { return typOf(f) == "*interfaces.PrepareMessage" && string(f.To) == string(m2.Id) })
	net.pool = nil
	net.timeout(m2, false)
	net.pool = nil // member 2's vote for view 1 is lost
	for _, n := range net.order {
		if n != m2 {
			net.timeout(n, false)
		}
	}
	net.deliverWhere(func(f *Flight) bool { return typOf(f) == "*interfaces.ViewChangeMessage" })
	net.deliverWhere(func(f *Flight) bool { return typOf(f) == "*interfaces.NewViewMessage" })
	net.pool = nil // the PREPAREs of view 1 are lost: nobody becomes prepared on B
	net.allTimeout()
	net.deliverWhere(func(f *Flight) bool { return typOf(f) == "*interfaces.ViewChangeMessage" })
	net.drainExcept("")
	return net
}

// bad-share-first-in-cache: member 2 lags at height 1.  The first message of height 2 it receives (and caches) is a
// Byzantine COMMIT whose random-seed share does not verify; then the honest traffic of height 2 arrives (cached
// behind it), then height 1.  When it starts height 2 the refused COMMIT must cost it nothing: every other cached
// message of the height is delivered and the member decides height 2.
func scenarioBadShareFirstInCache(c *Ctx) *Net {
	net := NewNet(c, NetOpts{N: 4, Weights: []uint64{1, 1, 1, 1}, ByzIdx: []int{3}, Inst: 100}, "bad-share-first-in-cache n=4 byz=[3]")
	net.timely = true
	net.start()
	a := net.adv
	L := net.nodes[string(memberId(2))]
	byz := memberId(3)
	if L == nil {
		c.Class("scenario/bad-share-first-in-cache/not-reached")
		return net
	}
	ref := a.refB(protocol.LEAN_HELIX_COMMIT, 100, 2, 0, []byte{9, 9, 9})
	bad := &protocol.CommitContentBuilder{SignedHeader: ref, Sender: a.senderB(byz, 2, ref.Build().Raw()), Share: []byte("not-a-share")}
	a.inject(L, interfaces.NewCommitMessage(bad.Build()).ToConsensusRawMessage(), "future-commit-bad-share")
	var held []*Flight
	for guard := 0; guard < 3000; guard++ {
		done := true
		for _, o := range net.order {
			if o != L && uint64(o.St.Height()) <= 2 {
				done = false
			}
		}
		if done || len(net.pool) == 0 {
			break
		}
		f := net.pool[0]
		net.pool = net.pool[1:]
		if string(f.To) == string(L.Id) {
			held = append(held, f)
			continue
		}
		net.deliverFlight(f)
		// the Byzantine member helps the others along by the book (three correct members of four cannot decide without the laggard)
		if pp, ok := interfaces.ToConsensusMessage(f.Raw).(*interfaces.PreprepareMessage); ok {
			hh, hash := uint64(pp.BlockHeight()), pp.Content().SignedHeader().BlockHash()
			key := fmt.Sprintf("%d|%x", hh, hash)
			if !net.helped[key] {
				if net.helped == nil {
					net.helped = map[string]bool{}
				}
				net.helped[key] = true
				for _, o := range net.order {
					if o != L {
						a.inject(o, a.mkP(byz, protocol.LEAN_HELIX_PREPARE, 100, hh, uint64(pp.View()), hash), "byz-prepare")
						a.inject(o, a.mkC(byz, protocol.LEAN_HELIX_COMMIT, 100, hh, uint64(pp.View()), hash), "byz-commit")
					}
				}
			}
		}
	}
	height := func(f *Flight) uint64 { return uint64(interfaces.ToConsensusMessage(f.Raw).BlockHeight()) }
	for _, hh := range []uint64{2, 1, 3} {
		for _, f := range held {
			if height(f) == hh {
				net.deliverFlight(f)
			}
		}
	}
	net.drainExcept("")
	return net
}

// huge-view-then-view-zero: committees whose size is not a power of two.  Every correct member first receives a
// VIEW_CHANGE for view 2^64-1 (from a Byzantine member; most members are not that view's leader and drop it), then
// the genuine proposal of view 0: the leader of view 0 is the member at position 0, whatever was looked up before.
func scenarioHugeViewThenViewZero(c *Ctx, n int) *Net {
	ws := make([]uint64, n)
	for i := range ws {
		ws[i] = 1
	}
	net := NewNet(c, NetOpts{N: n, Weights: ws, ByzIdx: []int{n - 1}, Inst: 100}, fmt.Sprintf("huge-view-then-view-zero n=%d", n))
	net.timely = true
	net.start()
	a := net.adv
	byz := memberId(n - 1)
	huge := ^uint64(0)
	a.toAll(a.mkVC(a.vcContent(byz, protocol.LEAN_HELIX_VIEW_CHANGE, 100, 1, huge, nil), nil), "vc-view-maxuint64")
	a.toAll(a.mkP(byz, protocol.LEAN_HELIX_PREPARE, 100, 1, huge, []byte{1, 2, 3}), "prepare-view-maxuint64")
	net.drainExcept("")
	return net
}
