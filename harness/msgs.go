package main

import (
	"github.com/orbs-network/lean-helix-go/services/interfaces"
	"github.com/orbs-network/lean-helix-go/spec/types/go/primitives"
	"github.com/orbs-network/lean-helix-go/spec/types/go/protocol"
)

// mkBareRaw builds a structurally valid (unsigned) raw message of the given type; used by suites
// that only exercise routing (filter, loops), not the protocol handlers.
func mkBareRaw(typ int, inst, h, v uint64, sender []byte) *interfaces.ConsensusRawMessage {
	ref := func(t protocol.MessageType) *protocol.BlockRefBuilder {
		return &protocol.BlockRefBuilder{MessageType: t, InstanceId: primitives.InstanceId(inst), BlockHeight: primitives.BlockHeight(h), View: primitives.View(v), BlockHash: []byte{1, 2, 3}}
	}
	snd := &protocol.SenderSignatureBuilder{MemberId: sender, Signature: []byte{9}}
	switch typ % 5 {
	case 0:
		return interfaces.NewPreprepareMessage((&protocol.PreprepareContentBuilder{SignedHeader: ref(protocol.LEAN_HELIX_PREPREPARE), Sender: snd}).Build(), nil).ToConsensusRawMessage()
	case 1:
		return interfaces.NewPrepareMessage((&protocol.PrepareContentBuilder{SignedHeader: ref(protocol.LEAN_HELIX_PREPARE), Sender: snd}).Build()).ToConsensusRawMessage()
	case 2:
		return interfaces.NewCommitMessage((&protocol.CommitContentBuilder{SignedHeader: ref(protocol.LEAN_HELIX_COMMIT), Sender: snd, Share: []byte{7}}).Build()).ToConsensusRawMessage()
	case 3:
		hdr := &protocol.ViewChangeHeaderBuilder{MessageType: protocol.LEAN_HELIX_VIEW_CHANGE, InstanceId: primitives.InstanceId(inst), BlockHeight: primitives.BlockHeight(h), View: primitives.View(v)}
		return interfaces.NewViewChangeMessage((&protocol.ViewChangeMessageContentBuilder{SignedHeader: hdr, Sender: snd}).Build(), nil).ToConsensusRawMessage()
	default:
		hdr := &protocol.NewViewHeaderBuilder{MessageType: protocol.LEAN_HELIX_NEW_VIEW, InstanceId: primitives.InstanceId(inst), BlockHeight: primitives.BlockHeight(h), View: primitives.View(v)}
		pp := &protocol.PreprepareContentBuilder{SignedHeader: ref(protocol.LEAN_HELIX_PREPREPARE), Sender: snd}
		return interfaces.NewNewViewMessage((&protocol.NewViewMessageContentBuilder{SignedHeader: hdr, Sender: snd, Message: pp}).Build(), nil).ToConsensusRawMessage()
	}
}
