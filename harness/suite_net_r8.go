package main

// Directed scenarios added in round 8 (appended at the end of the node suite).

import (
	"github.com/orbs-network/lean-helix-go/spec/types/go/protocol"
)

// glued-proof-beats-lock: weights (1,2,3,4), Q = 7; Byzantine member 2 (weight 3) leads view 2.  View 0: the
// correct leader proposes X, the PREPAREs go on the wire only (nobody is prepared).  View 1: its correct leader is
// elected by proof-less votes, proposes Y, everybody becomes prepared on Y (COMMITs lost).  View 2 (Byzantine
// leader) passes silently.  View 3: before the correct members' votes (carrying the proof of Y in view 1) reach
// the correct leader, the Byzantine member sends its vote with a proof whose PREPREPARE reference claims
// (view 2, X) — signed by itself, the legitimate leader of view 2 — glued onto the genuine PREPARE signatures for
// X of view 0.  The leader must refuse that vote and re-propose Y.
func scenarioGluedProofBeatsLock(c *Ctx) *Net {
	net := NewNet(c, NetOpts{N: 4, Weights: []uint64{1, 2, 3, 4}, ByzIdx: []int{2}, Inst: 100}, "glued-proof-beats-lock weights=[1 2 3 4] byz=[2]")
	net.timely = true
	net.start()
	a := net.adv
	inst, h := uint64(100), uint64(1)
	byz := memberId(2)
	ld3 := net.nodes[string(memberId(3))]
	net.deliverWhere(func(f *Flight) bool { return typOf(f) == "*interfaces.PreprepareMessage" })
	net.pool = nil // the PREPAREs for X are seen but reach nobody
	net.allTimeout()
	net.deliverWhere(func(f *Flight) bool { return typOf(f) == "*interfaces.ViewChangeMessage" })
	net.deliverWhere(func(f *Flight) bool { return typOf(f) == "*interfaces.NewViewMessage" })
	net.deliverWhere(func(f *Flight) bool { return typOf(f) == "*interfaces.PrepareMessage" })
	net.pool = nil // COMMITs for Y are lost
	net.allTimeout()
	net.pool = nil // view 2: the votes went to the Byzantine leader, which stays silent
	net.allTimeout()
	// view 3: the glued vote first
	proof, blkX := a.genuineProof(h, 0)
	if proof == nil || blkX == nil || ld3 == nil || len(proof.PrepareSenders) < 2 {
		c.Class("scenario/glued-proof-beats-lock/not-reached")
		net.drainExcept("")
		return net
	}
	ppref := a.refB(protocol.LEAN_HELIX_PREPREPARE, inst, h, 2, blockHash(blkX))
	proof.PreprepareBlockRef = ppref
	proof.PreprepareSender = a.senderB(byz, h, ppref.Build().Raw())
	var ps []*protocol.SenderSignatureBuilder
	for _, s := range proof.PrepareSenders {
		if string(s.MemberId) != string(byz) {
			ps = append(ps, s)
		}
	}
	proof.PrepareSenders = ps
	a.inject(ld3, a.mkVC(a.vcContent(byz, protocol.LEAN_HELIX_VIEW_CHANGE, inst, h, 3, proof), blkX), "vc-proof-view-mismatch")
	net.deliverWhere(func(f *Flight) bool { return typOf(f) == "*interfaces.ViewChangeMessage" })
	net.drainExcept("")
	return net
}

// stray-prepare-in-prepared-view: the Byzantine member 3 sends every correct member a correctly signed PREPARE of
// view 0 for ANOTHER hash before the genuine PREPAREs arrive (a PREPARE is logged whatever its hash, its proposal
// may still come).  Everybody becomes prepared on the leader's block, the COMMITs are lost, everybody times out:
// the prepared proof inside each vote is built from the PREPAREs for the prepared hash only, the leader of view 1
// accepts the votes and re-proposes the prepared block.
func scenarioStrayPrepareInPreparedView(c *Ctx) *Net {
	net := NewNet(c, NetOpts{N: 4, Weights: []uint64{1, 1, 1, 1}, ByzIdx: []int{3}, Inst: 100}, "stray-prepare-in-prepared-view n=4 byz=[3]")
	net.timely = true
	net.start()
	a := net.adv
	byz := memberId(3)
	other := a.newBlock(1, false)
	net.deliverWhere(func(f *Flight) bool { return typOf(f) == "*interfaces.PreprepareMessage" })
	for _, n := range net.order {
		a.inject(n, a.mkP(byz, protocol.LEAN_HELIX_PREPARE, 100, 1, 0, blockHash(other)), "stray-prepare-other-hash")
	}
	net.deliverWhere(func(f *Flight) bool { return typOf(f) == "*interfaces.PrepareMessage" })
	net.pool = nil // the COMMITs are lost
	net.allTimeout()
	net.deliverWhere(func(f *Flight) bool { return typOf(f) == "*interfaces.ViewChangeMessage" })
	net.drainExcept("")
	return net
}

// forceIdScheme >= 0 overrides the id scheme of every network built (scheme 3: ids DESCENDING along the committee
// order, so that code which re-orders the committee by id is visible in the leader rotation)
var forceIdScheme = -1

// the same lock hand-over scenarios on a committee whose order is not the order of the ids; after the view change
// that validated prepared proofs two more rounds of timeouts make every member compute leaders again
func scenariosDescendingIds(c *Ctx) {
	forceIdScheme = 3
	defer func() { forceIdScheme = -1 }()
	n1 := scenarioMinorityPreparedOverridden(c)
	n1.pool = nil
	n1.allTimeout()
	n1.deliverWhere(func(f *Flight) bool { return typOf(f) == "*interfaces.ViewChangeMessage" })
	n1.drainExcept("")
	n2 := scenarioStrayPrepareInPreparedView(c)
	n2.pool = nil
	n2.allTimeout()
	n2.deliverWhere(func(f *Flight) bool { return typOf(f) == "*interfaces.ViewChangeMessage" })
	n2.drainExcept("")
}
