package main

// Round 9: election triggers against a busy worker, on a real MainLoop (both goroutines).  Monitors only.

import (
	"context"
	"errors"
	"fmt"
	"sync"
	"sync/atomic"
	"time"

	leanhelix "github.com/orbs-network/lean-helix-go"
	"github.com/orbs-network/lean-helix-go/instrumentation/metrics"
	"github.com/orbs-network/lean-helix-go/services/interfaces"
	"github.com/orbs-network/lean-helix-go/spec/types/go/primitives"
	"github.com/orbs-network/lean-helix-go/spec/types/go/protocol"
	"github.com/orbs-network/lean-helix-go/state"
)

// triggerRaces:
//   parked-stale-trigger (C05/C19): the trigger of (1,0) arrives while the worker is inside the commit callback of
//     height 1 and stays in the worker's one-slot election channel; the node then leads height 2 and sits in
//     RequestNewBlockProposal when the trigger of (2,0) arrives: the newer trigger must win the slot, the node must
//     reach view 1 of height 2.
//   stale-trigger-while-elected (C15): member 1 is moved to view 1 by the trigger of (1,0), elected by two votes, and
//     sits in RequestNewBlockProposal under the context of (1,1) when a duplicate of the trigger of (1,0) arrives: an
//     event about an older position must not end the call of the current one.
//   election-during-failing-commit (C19): the trigger of (1,0) arrives while the worker is inside the commit callback
//     of height 1, which then fails (the node stays at (1,0)): the trigger must still be acted upon.
func triggerRaces(c *Ctx) {
	rounds := 2
	if c.Thorough() {
		rounds = 8
	}
	for it := 0; it < rounds; it++ {
		for _, kind := range []string{"parked-stale-trigger", "stale-trigger-while-elected", "election-during-failing-commit"} {
			w := NewWorld(100)
			var members []interfaces.CommitteeMember
			for i := 0; i < 4; i++ {
				members = append(members, interfaces.CommitteeMember{Id: memberId(i), Weight: 1})
			}
			w.Committee = func(h uint64) []interfaces.CommitteeMember { return members }
			me := 0
			if kind == "stale-trigger-while-elected" {
				me = 1
			}
			cfg, bu, comm, el := simpleConfig(w, memberId(me))
			var requests, sawDone int32
			blockFrom := int32(2) // the request that blocks: the second one (height 2) — or the first one of the elected member
			if kind == "stale-trigger-while-elected" {
				blockFrom = 1
			}
			release := make(chan struct{})
			inSpi := make(chan struct{}, 4)
			bu.Gate = func(ctx context.Context, k string) {
				if k != "request" || atomic.AddInt32(&requests, 1) < blockFrom {
					return
				}
				select {
				case inSpi <- struct{}{}:
				default:
				}
				select {
				case <-ctx.Done():
					atomic.StoreInt32(&sawDone, 1)
				case <-release:
				}
			}
			var mu sync.Mutex
			var roundHs []uint64
			hold := make(chan struct{})
			inCommit := make(chan struct{}, 4)
			ml := leanhelix.NewLeanHelix(cfg, func(ctx context.Context, block interfaces.Block, blockProof []byte) error {
				if kind != "stale-trigger-while-elected" && uint64(block.Height()) == 1 {
					inCommit <- struct{}{}
					select {
					case <-hold:
					case <-time.After(3 * time.Second):
					}
					if kind == "election-during-failing-commit" {
						return errors.New("the consumer could not persist the block")
					}
				}
				return nil
			}, func(ctx context.Context, newHeight primitives.BlockHeight, prevBlock interfaces.Block, canBeFirstLeader bool) {
				mu.Lock()
				roundHs = append(roundHs, uint64(newHeight))
				mu.Unlock()
			})
			ctx, cancel := context.WithCancel(context.Background())
			ml.Run(ctx)
			net := &Net{w: w}
			a := &Adversary{net: net, km: &FakeKeyManager{w: w, me: memberId(2)}}
			send := func(raw *interfaces.ConsensusRawMessage) {
				tctx, tc := context.WithTimeout(ctx, time.Second)
				ml.HandleConsensusMessage(tctx, raw)
				tc()
			}
			waitFor := func(f func() bool, d time.Duration) bool {
				for t0 := time.Now(); time.Since(t0) < d; time.Sleep(3 * time.Millisecond) {
					if f() {
						return true
					}
				}
				return f()
			}
			fire := func(h, v uint64) {
				trig := &interfaces.ElectionTrigger{Hv: state.NewHeightView(primitives.BlockHeight(h), primitives.View(v)), MoveToNextLeader: func() { el.Fire(h, v) }}
				select {
				case el.ch <- trig:
				case <-time.After(time.Second):
				}
			}
			ownProposal := func(h uint64) []byte {
				var hash []byte
				waitFor(func() bool {
					comm.mu.Lock()
					defer comm.mu.Unlock()
					for _, s := range comm.Outbox {
						if pp, ok := interfaces.ToConsensusMessage(s.Raw).(*interfaces.PreprepareMessage); ok && uint64(pp.BlockHeight()) == h {
							hash = pp.Content().SignedHeader().BlockHash()
						}
					}
					return hash != nil
				}, 2*time.Second)
				return hash
			}
			pos := func() string { return fmt.Sprintf("(%d,%d)", uint64(ml.State().Height()), uint64(ml.State().View())) }
			tctx, tc := context.WithTimeout(ctx, time.Second)
			ml.UpdateState(tctx, nil, nil)
			tc()
			reached := false
			switch kind {
			case "parked-stale-trigger", "election-during-failing-commit":
				if h1 := ownProposal(1); h1 != nil {
					for _, m := range []int{1, 2} {
						send(a.mkP(memberId(m), protocol.LEAN_HELIX_PREPARE, 100, 1, 0, h1))
					}
					for _, m := range []int{1, 2} {
						send(a.mkC(memberId(m), protocol.LEAN_HELIX_COMMIT, 100, 1, 0, h1))
					}
					select {
					case <-inCommit:
						reached = true
					case <-time.After(2 * time.Second):
					}
				}
				if !reached {
					close(hold)
					break
				}
				fire(1, 0) // while the worker is inside the commit callback of height 1
				time.Sleep(time.Duration(15+10*it) * time.Millisecond)
				close(hold)
				if kind == "election-during-failing-commit" {
					if !waitFor(func() bool { return uint64(ml.State().View()) >= 1 }, 1500*time.Millisecond) {
						c.Violation("C19", "election-trigger-lost", "the election timer of (1,0) fired while the worker was inside the commit callback of height 1, which then failed (the node stays at height 1): 1.5 s later the node is still at "+pos()+" — the trigger was never acted upon", "trigger-race "+kind)
					}
					break
				}
				select {
				case <-inSpi: // leading height 2, inside RequestNewBlockProposal
				case <-time.After(2 * time.Second):
					reached = false
				}
				if !reached {
					break
				}
				fire(2, 0)
				if !waitFor(func() bool { return uint64(ml.State().Height()) == 2 && uint64(ml.State().View()) >= 1 }, 1500*time.Millisecond) {
					c.Violation("C05", "view-never-left", fmt.Sprintf("the election timeout of (2,0) fired while this node, leading (2,0), sat in RequestNewBlockProposal and an older trigger was still waiting in the worker's slot: 1.5 s later the node is at %s — it never leaves the view, so neither this leader's view nor the next one can end in a commit with it", pos()), "trigger-race "+kind)
					c.Violation("C19", "election-trigger-lost", fmt.Sprintf("the trigger of (1,0) arrived while the worker was inside the commit callback of height 1 and was still waiting in its slot when the trigger of (2,0) arrived (the worker in RequestNewBlockProposal of (2,0), context cancelled: %v): 1.5 s later the node is at %s, not in view 1 of height 2", atomic.LoadInt32(&sawDone) == 1, pos()), "trigger-race "+kind)
				}
			case "stale-trigger-while-elected":
				fire(1, 0)
				if waitFor(func() bool { return uint64(ml.State().View()) == 1 }, time.Second) {
					for _, m := range []int{2, 3} {
						send(a.mkVC(a.vcContent(memberId(m), protocol.LEAN_HELIX_VIEW_CHANGE, 100, 1, 1, nil), nil))
					}
					select {
					case <-inSpi:
						reached = true
					case <-time.After(2 * time.Second):
					}
				}
				if reached {
					fire(1, 0) // a duplicate / late trigger about the older view
					time.Sleep(time.Duration(120+20*it) * time.Millisecond)
					if atomic.LoadInt32(&sawDone) == 1 {
						c.Violation("C15", "context-cancelled-by-older-event", "the node, elected leader of (1,1), sat in RequestNewBlockProposal under the context of (1,1) when a late election trigger about the older position (1,0) arrived: the context of the current position was cancelled (node at "+pos()+")", "trigger-race "+kind)
					}
				}
			}
			if !reached {
				c.Class("trigger-race/" + kind + "/not-reached")
			}
			c.Class("trigger-race/" + kind)
			mu.Lock()
			c.Nontrivial(fmt.Sprintf("trigger-race/%s/%d/%v", kind, it, roundHs))
			mu.Unlock()
			cancel()
			close(release)
			wctx, wc := context.WithTimeout(context.Background(), 2*time.Second)
			ml.WaitUntilShutdown(wctx)
			wc()
		}
	}
}

// slowElectionCallback (C16): the library's own timer (200 ms), a consumer whose election callback (a metrics sink)
// takes 300 ms.  The Run context is cancelled while the callback of the first election is running: the callback
// runs on the worker, so WaitUntilShutdown waits for it — nothing the library started may still be running when it
// returns.
func slowElectionCallback(c *Ctx) {
	rounds := 1
	if c.Thorough() {
		rounds = 4
	}
	for it := 0; it < rounds; it++ {
		w := NewWorld(100)
		var members []interfaces.CommitteeMember
		for i := 0; i < 4; i++ {
			members = append(members, interfaces.CommitteeMember{Id: memberId(i), Weight: 1})
		}
		w.Committee = func(h uint64) []interfaces.CommitteeMember { return members }
		cfg, _, _, _ := simpleConfig(w, memberId(1))
		cfg.OverrideElectionTrigger = nil
		cfg.ElectionTimeoutOnV0 = 200 * time.Millisecond
		var running, started int32
		cfg.OnElectionCB = func(m metrics.ElectionMetrics) {
			atomic.AddInt32(&running, 1)
			atomic.AddInt32(&started, 1)
			time.Sleep(300 * time.Millisecond)
			atomic.AddInt32(&running, -1)
		}
		ml := leanhelix.NewLeanHelix(cfg, func(ctx context.Context, block interfaces.Block, blockProof []byte) error { return nil }, nil)
		ctx, cancel := context.WithCancel(context.Background())
		ml.Run(ctx)
		tctx, tc := context.WithTimeout(ctx, time.Second)
		ml.UpdateState(tctx, nil, nil)
		tc()
		reached := false
		for t0 := time.Now(); time.Since(t0) < 2*time.Second; time.Sleep(2 * time.Millisecond) {
			if atomic.LoadInt32(&started) > 0 {
				reached = true
				break
			}
		}
		time.Sleep(time.Duration(10+15*it) * time.Millisecond)
		cancel()
		wctx, wc := context.WithTimeout(context.Background(), 3*time.Second)
		ml.WaitUntilShutdown(wctx)
		timedOut := wctx.Err() != nil
		wc()
		if n := atomic.LoadInt32(&running); reached && !timedOut && n > 0 {
			c.Violation("C16", "activity-after-shutdown", fmt.Sprintf("WaitUntilShutdown returned while %d invocation(s) of the consumer's election callback, started by the library, are still running", n), "slow-election-callback")
		}
		if timedOut {
			c.Violation("C16", "shutdown-slow", "cancelled while the consumer's election callback (300 ms) was running: WaitUntilShutdown did not return within 3 s", "slow-election-callback")
		}
		if !reached {
			c.Class("slow-election-callback/not-reached")
		}
		c.Class("slow-election-callback")
		time.Sleep(320 * time.Millisecond) // let a detached callback finish before the next scenario counts goroutines
	}
}
