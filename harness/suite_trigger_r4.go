package main

import (
	"fmt"
	"runtime"
	"time"

	Electiontrigger "github.com/orbs-network/lean-helix-go/services/electiontrigger"
	"github.com/orbs-network/lean-helix-go/services/interfaces"
	"github.com/orbs-network/lean-helix-go/spec/types/go/primitives"
)

// triggerRace (C19): the timer of (h, 0) expires at the very moment its owner re-arms for (h, 20).  One
// processor, a busy wait past the expiry and one yield make the runtime start the goroutine of the expired
// timer without letting it run before the re-arm has returned.  Whatever that goroutine does then, the only
// pair armed afterwards is (h, 20), whose timeout is base*2^20 (about 52 s): a trigger carrying (h, 20) within
// the next half millisecond is a trigger before its timeout.  (A late trigger of the superseded pair (h, 0) is
// not judged here: the worker discards it by its height and view.)  Monitor only; nothing is emitted.
func triggerRace(c *Ctx) {
	iters := 400
	if c.Thorough() {
		iters = 4000
	}
	prev := runtime.GOMAXPROCS(1)
	defer runtime.GOMAXPROCS(prev)
	const base = 50 * time.Microsecond
	const farView = primitives.View(20)
	et := Electiontrigger.NewTimerBasedElectionTrigger(base, nil)
	if et.CalcTimeout(farView) < 30*time.Second {
		c.Class("trigger-race/skipped")
		return
	}
	cb := func(h primitives.BlockHeight, v primitives.View, _ interfaces.OnElectionCallback) {}
	early := 0
	for i := 0; i < iters && early == 0; i++ {
		h := primitives.BlockHeight(i + 1)
		et.RegisterOnElection(h, 0, cb)
		for start := time.Now(); time.Since(start) < 4*base; {
		}
		runtime.Gosched()
		et.RegisterOnElection(h, farView, cb)
		armedAt := time.Now()
		select {
		case tr := <-et.ElectionChannel():
			if tr.Hv.Height() == h && tr.Hv.View() == farView {
				early++
				c.Violation("C19", "trigger-before-timeout", fmt.Sprintf("iteration %d: the timer of (%d,0) expired while the owner re-armed for (%d,%d): a trigger carrying (%d,%d) arrived %v after arming, its election timeout is %v", i, uint64(h), uint64(h), uint64(farView), uint64(h), uint64(farView), time.Since(armedAt), et.CalcTimeout(farView)), "trigger-race")
			}
		case <-time.After(500 * time.Microsecond):
		}
	}
	et.Stop()
	c.Class("trigger-race")
	c.Nontrivial(fmt.Sprintf("trigger-race/early=%d", early))
}
