package main

import (
	"context"
	"fmt"
	"runtime"
	"strings"
	"sync"
	"sync/atomic"
	"time"

	leanhelix "github.com/orbs-network/lean-helix-go"
	"github.com/orbs-network/lean-helix-go/services/interfaces"
	"github.com/orbs-network/lean-helix-go/spec/types/go/primitives"
	"github.com/orbs-network/lean-helix-go/spec/types/go/protocol"
	"github.com/orbs-network/lean-helix-go/state"
)

func init() { suites["loops"] = suiteLoops }

func (net *Net) shutdownAll() {
	for _, n := range net.order {
		if n.Main != nil && !n.Down {
			n.Cancel()
			wctx, c := context.WithTimeout(context.Background(), 3*time.Second)
			n.Main.WaitUntilShutdown(wctx)
			c()
			n.Down = true
		}
	}
}

// suiteLoops: one member of each scenario runs as a full MainLoop (main + worker goroutines) and is
// driven through the public API under a serialised schedule (next event only when both loops are
// idle), so that its observable behaviour can be compared with the Loops model step by step; the
// other members are worker-level real nodes producing honest traffic. Then the context is cancelled
// and the shutdown properties are judged. A concurrent stress phase (no model comparison) follows.
func suiteLoops(c *Ctx) {
	r := c.Rng
	nsc := 12
	if c.Thorough() {
		nsc = 150
	}
	base := runtime.NumGoroutine()
	for i := 0; i < nsc; i++ {
		n := 4 + r.Intn(3)
		ws := make([]uint64, n)
		for k := range ws {
			ws[k] = uint64(1 + r.Intn(2))
		}
		mainIdx := r.Intn(n)
		net := NewNet(c, NetOpts{N: n, Weights: ws, Inst: 100, MainIdx: []int{mainIdx}}, fmt.Sprintf("loops n=%d weights=%v main=%d", n, ws, mainIdx))
		M := net.nodes[string(memberId(mainIdx))]
		prof := SchedProfile{Drop: 20, Dup: 30, Timeout: 40, StaleTimeout: 300, Sync: 60, CancelDuring: 0, CommitFail: 10, MaxSteps: 150 + r.Intn(150), MaxHeight: 3}
		net.run(prof)
		// sync patterns on the MainLoop node: repeated, decreasing, bursts
		hNow := uint64(M.St.Height())
		for _, h := range []uint64{hNow + 2, hNow + 2, hNow, hNow + 5, hNow + 1, 1, hNow + 5, hNow + 6} {
			before := uint64(M.St.Height())
			beforeSnap := stateOnly(M.snapshot())
			net.sync(M, h)
			after := uint64(M.St.Height())
			// C14 monitors (serialised): an accepted sync takes effect; a stale one changes nothing; never first leader after sync
			if h >= before && after <= h {
				c.Violation("C14", "sync-not-effective", fmt.Sprintf("UpdateState(block %d) returned while the node was deciding height %d; afterwards it decides height %d", h, before, after), net.replay())
			}
			if h+1 < before && stateOnly(M.snapshot()) != beforeSnap {
				c.Violation("C14", "stale-sync-changed-state", fmt.Sprintf("UpdateState(block %d) below the current height %d changed the node: %s -> %s", h, before, beforeSnap, stateOnly(M.snapshot())), net.replay())
			}
			if len(M.Rounds) > 0 && after > before {
				last := M.Rounds[len(M.Rounds)-1]
				if last.CanBeFirst && last.H == after {
					c.Violation("C14", "first-leader-after-sync", fmt.Sprintf("the round of height %d entered by sync may act as first leader", after), net.replay())
				}
			}
			c.Nontrivial(fmt.Sprintf("sync/%d/%d/%d", before, h, after))
		}
		// a few more protocol steps, then cancellation at this (random) point
		prof.MaxSteps = net.steps + r.Intn(60)
		prof.MaxHeight = 1 << 40
		net.run(prof)
		commitsBefore, roundsBefore, sentBefore := len(M.Commits), len(M.Rounds), len(M.Sent)
		spi, out, took := M.Shutdown()
		line := fmt.Sprintf("%d lcancel", M.Idx)
		if spi != "" {
			line += " " + spi
		}
		c.Emit(line, out)
		net.history = append(net.history, line)
		if took > time.Second {
			c.Violation("C16", "shutdown-slow", fmt.Sprintf("WaitUntilShutdown took %v", took), net.replay())
		}
		// everything after cancellation must be a no-op and return promptly
		t0 := time.Now()
		net.sync(M, uint64(M.St.Height())+3)
		net.timeout(M, false)
		if len(net.seen) > 0 {
			net.deliverFlight(&Flight{To: M.Id, From: nil, Raw: net.seen[r.Intn(len(net.seen))].Raw, Byz: true})
		}
		if time.Since(t0) > 500*time.Millisecond {
			c.Violation("C16", "api-blocks-after-cancel", fmt.Sprintf("API calls with the cancelled context took %v", time.Since(t0)), net.replay())
		}
		time.Sleep(10 * time.Millisecond)
		if len(M.Commits) != commitsBefore || len(M.Rounds) != roundsBefore || len(M.Sent) != sentBefore {
			c.Violation("C16", "activity-after-shutdown", fmt.Sprintf("after shutdown: commits %d->%d rounds %d->%d sends %d->%d", commitsBefore, len(M.Commits), roundsBefore, len(M.Rounds), sentBefore, len(M.Sent)), net.replay())
		}
		if M.El.FakeElection.Armed {
			c.Violation("C16", "timer-armed-after-shutdown", "the election timer is still armed after shutdown", net.replay())
		}
		c.Class(fmt.Sprintf("scenario/loops/n%d", n))
		c.Nontrivial(fmt.Sprintf("cancel/h%d/v%d", uint64(M.St.Height()), uint64(M.St.View())))
	}
	// goroutines must be back to the baseline
	time.Sleep(50 * time.Millisecond)
	if g := runtime.NumGoroutine(); g > base+2 {
		c.Violation("C16", "goroutine-leak", fmt.Sprintf("%d goroutines before the scenarios, %d after all nodes were shut down", base, g), "suite loops")
	}
	stressLoops(c)
	shutdownScenarios(c)
	twoTriggerScenario(c)
	commitPanicScenario(c)
	staleSyncRaces(c)
	triggerRaces(c)
	slowElectionCallback(c)
}

// stressLoops: many concurrent API callers against one running MainLoop with the REAL timer-based
// election trigger (1 ms base), random cancellation; only monitors judge (C13, C14, C16).
func stressLoops(c *Ctx) {
	r := c.Rng
	rounds := 6
	if c.Thorough() {
		rounds = 60
	}
	for it := 0; it < rounds; it++ {
		base := runtime.NumGoroutine()
		w := NewWorld(100)
		var members []interfaces.CommitteeMember
		for i := 0; i < 4; i++ {
			members = append(members, interfaces.CommitteeMember{Id: memberId(i), Weight: 1})
		}
		w.Committee = func(h uint64) []interfaces.CommitteeMember { return members }
		cfg, _, _, _ := simpleConfig(w, memberId(it%4))
		cfg.OverrideElectionTrigger = nil
		cfg.ElectionTimeoutOnV0 = time.Millisecond
		var mu sync.Mutex
		var commitHs, roundHs []uint64
		stopped := false
		late := 0
		ml := leanhelix.NewLeanHelix(cfg, func(ctx context.Context, block interfaces.Block, blockProof []byte) error {
			mu.Lock()
			defer mu.Unlock()
			commitHs = append(commitHs, uint64(block.Height()))
			if stopped {
				late++
			}
			return nil
		}, func(ctx context.Context, newHeight primitives.BlockHeight, prevBlock interfaces.Block, canBeFirstLeader bool) {
			mu.Lock()
			defer mu.Unlock()
			roundHs = append(roundHs, uint64(newHeight))
			if stopped {
				late++
			}
		})
		ctx, cancel := context.WithCancel(context.Background())
		defer cancel()
		ml.Run(ctx)
		var wg sync.WaitGroup
		var maxSync uint64
		net := &Net{w: w}
		for g := 0; g < 6; g++ {
			wg.Add(1)
			seed := r.Int63()
			go func(g int) {
				defer wg.Done()
				rr := newRand(seed)
				for k := 0; k < 150; k++ {
					tctx, tc := context.WithTimeout(ctx, 300*time.Millisecond)
					switch rr.Intn(3) {
					case 0:
						h := uint64(rr.Intn(40))
						if err := ml.UpdateState(tctx, &FakeBlock{H: h, Id: 1}, net.syncProof(h)); err == nil {
							mu.Lock()
							if h > maxSync {
								maxSync = h
							}
							mu.Unlock()
						} else if ctx.Err() == nil {
							c.Violation("C14", "updatestate-blocked", fmt.Sprintf("UpdateState(%d) did not return within 300ms while the loops run", h), "stress")
						}
					default:
						ml.HandleConsensusMessage(tctx, mkBareRaw(rr.Intn(5), 100, uint64(rr.Intn(40)), uint64(rr.Intn(3)), memberId(rr.Intn(4))))
					}
					tc()
				}
			}(g)
		}
		// samples of the observable (height, view): never decreasing lexicographically; one paced observer
		// and three that read back to back (a torn snapshot is only visible for an instant)
		for k := 0; k < 4; k++ {
			pace := k == 0
			go func() {
				var lh, lv uint64
				for ctx.Err() == nil {
					hv := ml.State().HeightView()
					h, v := uint64(hv.Height()), uint64(hv.View())
					if h < lh || (h == lh && v < lv) {
						c.Violation("C13", "state-decreased", fmt.Sprintf("(height,view) sampled (%d,%d) after (%d,%d)", h, v, lh, lv), "stress")
					}
					lh, lv = h, v
					if pace {
						time.Sleep(20 * time.Microsecond)
					}
				}
			}()
		}
		cancelEarly := r.Intn(2) == 0
		if cancelEarly {
			time.Sleep(time.Duration(r.Intn(3000)) * time.Microsecond)
			cancel()
		}
		wg.Wait()
		if !cancelEarly {
			time.Sleep(20 * time.Millisecond)
			// C14: the newest accepted sync takes effect
			mu.Lock()
			ms := maxSync
			mu.Unlock()
			if h := uint64(ml.State().Height()); h <= ms {
				c.Violation("C14", "sync-not-effective", fmt.Sprintf("UpdateState(block %d) was accepted but the node decides height %d", ms, h), "stress")
			}
			cancel()
		}
		t0 := time.Now()
		wctx, wc := context.WithTimeout(context.Background(), 3*time.Second)
		ml.WaitUntilShutdown(wctx)
		wc()
		if d := time.Since(t0); d > time.Second {
			c.Violation("C16", "shutdown-slow", fmt.Sprintf("WaitUntilShutdown took %v under load", d), "stress")
		}
		mu.Lock()
		stopped = true
		mu.Unlock()
		time.Sleep(30 * time.Millisecond)
		mu.Lock()
		if late > 0 {
			c.Violation("C16", "activity-after-shutdown", fmt.Sprintf("%d callbacks after WaitUntilShutdown returned", late), "stress")
		}
		for i := 1; i < len(roundHs); i++ {
			if roundHs[i] <= roundHs[i-1] {
				c.Violation("C13", "round-height-not-increasing", fmt.Sprintf("new-round callback heights %v", roundHs), "stress")
				break
			}
		}
		mu.Unlock()
		if g := runtime.NumGoroutine(); g > base+1 {
			time.Sleep(100 * time.Millisecond)
			if g = runtime.NumGoroutine(); g > base+1 {
				c.Violation("C16", "goroutine-leak", fmt.Sprintf("%d goroutines before Run, %d after shutdown (real timer-based trigger)", base, g), "stress")
			}
		}
		c.Class(fmt.Sprintf("stress/early%v", cancelEarly))
		c.Nontrivial(fmt.Sprintf("stress/%d/%d", it, len(roundHs)))
	}
}


// failingMembership: RequestOrderedCommittee fails for the first `failFor` calls (forever when negative).
type failingMembership struct {
	*FakeMembership
	mu      sync.Mutex
	failFor int
	calls   int
	last    time.Time
}

func (m *failingMembership) RequestOrderedCommittee(ctx context.Context, h primitives.BlockHeight, seed uint64, ref primitives.TimestampSeconds) ([]interfaces.CommitteeMember, error) {
	m.mu.Lock()
	m.calls++
	m.last = time.Now()
	fail := m.failFor < 0 || m.calls <= m.failFor
	m.mu.Unlock()
	if fail {
		return nil, fmt.Errorf("committee contract unavailable")
	}
	return m.FakeMembership.RequestOrderedCommittee(ctx, h, seed, ref)
}

// libraryGoroutines counts goroutines that are inside the library's loops (from a full stack dump).
func libraryGoroutines() (int, string) {
	buf := make([]byte, 1<<20)
	n := runtime.Stack(buf, true)
	cnt := 0
	var which []string
	for _, g := range strings.Split(string(buf[:n]), "\n\n") {
		for _, fn := range []string{"(*WorkerLoop).Run", "(*MainLoop).run", "(*TimerBasedElectionTrigger)", "requestOrderedCommitteePersist", "(*TermInCommittee)"} {
			if strings.Contains(g, "lean-helix-go") && strings.Contains(g, fn) {
				cnt++
				which = append(which, fn)
				break
			}
		}
	}
	return cnt, strings.Join(which, ",")
}

// twoTriggerScenario (C19): two election timers expire while the worker is busy with one piece of work.
// The leader of height 1 is inside the consumer's commit callback when the (now pointless) timer of (1,0)
// fires; in the same piece of work it starts height 2, arms (2,0) and, being leader again, blocks in
// RequestNewBlockProposal.  Then the timer of (2,0) fires.  The worker's one-slot election inbox still holds
// the trigger of (1,0): the armed, un-superseded trigger of (2,0) must nevertheless be acted upon.
func twoTriggerScenario(c *Ctx) {
	rounds := 2
	if c.Thorough() {
		rounds = 10
	}
	for it := 0; it < rounds; it++ {
		w := NewWorld(100)
		var members []interfaces.CommitteeMember
		for i := 0; i < 4; i++ {
			members = append(members, interfaces.CommitteeMember{Id: memberId(i), Weight: 1})
		}
		w.Committee = func(h uint64) []interfaces.CommitteeMember { return members }
		cfg, bu, comm, el := simpleConfig(w, memberId(0))
		var gateCalls int32
		inSpi2 := make(chan struct{}, 4)
		release := make(chan struct{})
		bu.Gate = func(ctx context.Context, k string) {
			if atomic.AddInt32(&gateCalls, 1) == 1 {
				return // the proposal of height 1 is produced at once
			}
			select {
			case inSpi2 <- struct{}{}:
			default:
			}
			select {
			case <-ctx.Done():
				time.Sleep(30 * time.Millisecond)
			case <-release:
			}
		}
		inCommit := make(chan struct{}, 4)
		releaseCommit := make(chan struct{})
		ml := leanhelix.NewLeanHelix(cfg, func(ctx context.Context, block interfaces.Block, blockProof []byte) error {
			select {
			case inCommit <- struct{}{}:
			default:
			}
			select {
			case <-releaseCommit:
			case <-time.After(3 * time.Second):
			}
			return nil
		}, nil)
		ctx, cancel := context.WithCancel(context.Background())
		ml.Run(ctx)
		net := &Net{w: w}
		a := &Adversary{net: net, km: &FakeKeyManager{w: w, me: memberId(1)}}
		send := func(raw *interfaces.ConsensusRawMessage) {
			tctx, tc := context.WithTimeout(ctx, time.Second)
			ml.HandleConsensusMessage(tctx, raw)
			tc()
		}
		tctx, tc := context.WithTimeout(ctx, time.Second)
		ml.UpdateState(tctx, nil, nil)
		tc()
		// the leader's own proposal of (1,0)
		var hash []byte
		for k := 0; k < 400 && hash == nil; k++ {
			time.Sleep(5 * time.Millisecond)
			comm.mu.Lock()
			for _, s := range comm.Outbox {
				if pp, ok := interfaces.ToConsensusMessage(s.Raw).(*interfaces.PreprepareMessage); ok {
					hash = pp.Content().SignedHeader().BlockHash()
				}
			}
			comm.mu.Unlock()
		}
		reached := false
		if hash != nil {
			for _, m := range []int{1, 2} {
				send(a.mkP(memberId(m), protocol.LEAN_HELIX_PREPARE, 100, 1, 0, hash))
			}
			for _, m := range []int{1, 2} {
				send(a.mkC(memberId(m), protocol.LEAN_HELIX_COMMIT, 100, 1, 0, hash))
			}
			select {
			case <-inCommit:
				reached = true
			case <-time.After(2 * time.Second):
			}
		}
		if !reached {
			c.Class("two-triggers/not-reached")
			close(releaseCommit)
			close(release)
			cancel()
			continue
		}
		fire := func(h, v uint64) {
			trig := &interfaces.ElectionTrigger{Hv: state.NewHeightView(primitives.BlockHeight(h), primitives.View(v)), MoveToNextLeader: func() { el.Fire(h, v) }}
			select {
			case el.ch <- trig:
			case <-time.After(time.Second):
			}
		}
		fire(1, 0) // the timer of (1,0) expires while the commit callback of height 1 is running
		time.Sleep(30 * time.Millisecond)
		close(releaseCommit)
		select {
		case <-inSpi2: // height 2 started, (2,0) armed, the leader waits for its consumer
		case <-time.After(2 * time.Second):
			c.Class("two-triggers/height-2-not-reached")
		}
		fire(2, 0)
		ok := false
		var hv *state.HeightView
		for k := 0; k < 300 && !ok; k++ {
			time.Sleep(5 * time.Millisecond)
			hv = ml.State().HeightView()
			ok = uint64(hv.Height()) == 2 && uint64(hv.View()) >= 1
		}
		if !ok {
			c.Violation("C19", "armed-trigger-not-acted-upon", fmt.Sprintf("the election timer armed for (2,0) expired and was read by the main loop while the worker's election inbox still held the trigger of (1,0): 1.5 s later the node is at (%d,%d), it never moved to view 1", uint64(hv.Height()), uint64(hv.View())), "two-triggers")
		}
		c.Class("two-triggers")
		c.Nontrivial(fmt.Sprintf("two-triggers/%v", ok))
		close(release)
		cancel()
		wctx, wc := context.WithTimeout(context.Background(), 2*time.Second)
		ml.WaitUntilShutdown(wctx)
		wc()
	}
}

// shutdownScenarios (C16, C14): cancellation and sync while the worker is inside an SPI call that
// is slow to return, or polling a failing committee contract.  Monitors only.
func shutdownScenarios(c *Ctx) {
	r := c.Rng
	rounds := 3
	if c.Thorough() {
		rounds = 20
	}
	for it := 0; it < rounds; it++ {
		for _, kind := range []string{"request", "request-timer", "elected-request-timer", "timer-out-of-committee", "validate", "membership", "membership-then-sync", "membership-then-sync-same", "flood-then-sync", "flood-then-election", "two-syncs"} {
			w := NewWorld(100)
			var members []interfaces.CommitteeMember
			for i := 0; i < 4; i++ {
				members = append(members, interfaces.CommitteeMember{Id: memberId(i), Weight: 1})
			}
			w.Committee = func(h uint64) []interfaces.CommitteeMember { return members }
			if kind == "timer-out-of-committee" {
				// from height 3 on this node is not a committee member any more
				w.Committee = func(h uint64) []interfaces.CommitteeMember {
					if h >= 3 {
						return members[1:]
					}
					return members
				}
			}
			me := 0 // leader of view 0: proposes on start
			if kind == "validate" || kind == "elected-request-timer" {
				me = 1
			}
			cfg, bu, _, el := simpleConfig(w, memberId(me))
			linger := time.Duration(20+r.Intn(150)) * time.Millisecond
			if kind == "request-timer" || kind == "elected-request-timer" {
				// the library's own timer-based election trigger, armed by the term that is being started when the
				// shutdown arrives: after WaitUntilShutdown nothing of it may be left, even once its timeout has passed
				cfg.OverrideElectionTrigger = nil
				cfg.ElectionTimeoutOnV0 = 90 * time.Millisecond
				linger = time.Duration(10+r.Intn(40)) * time.Millisecond
			}
			if kind == "elected-request-timer" {
				cfg.ElectionTimeoutOnV0 = 40 * time.Millisecond
			}
			if kind == "timer-out-of-committee" {
				// the library's own timer, armed at height 1; the node is then synced to a height whose committee does not
				// contain it (the term is replaced by an inert one) and shut down before the old timeout has passed
				cfg.OverrideElectionTrigger = nil
				cfg.ElectionTimeoutOnV0 = 150 * time.Millisecond
				linger = 10 * time.Millisecond
			}
			// every other round the consumer answers a cancelled RequestNewBlockProposal with no block at all
			bu.NilOnCancel = it%2 == 1 || kind == "elected-request-timer"
			inSpi := make(chan struct{}, 16)
			release := make(chan struct{})
			var sawDone int32
			bu.Gate = func(ctx context.Context, k string) {
				select {
				case inSpi <- struct{}{}:
				default:
				}
				select {
				case <-ctx.Done():
					atomic.StoreInt32(&sawDone, 1)
					time.Sleep(linger) // a consumer that needs a while to notice the cancellation
				case <-release: // the scenario is over and the context was never cancelled
				}
			}
			fm := &failingMembership{FakeMembership: &FakeMembership{w: w, me: memberId(me)}}
			if strings.HasPrefix(kind, "membership") {
				fm.failFor = -1
				cfg.Membership = fm
			}
			var mu sync.Mutex
			stopped := false
			late := 0
			var roundHs []uint64
			ml := leanhelix.NewLeanHelix(cfg, func(ctx context.Context, block interfaces.Block, blockProof []byte) error {
				mu.Lock()
				defer mu.Unlock()
				if stopped {
					late++
				}
				return nil
			}, func(ctx context.Context, newHeight primitives.BlockHeight, prevBlock interfaces.Block, canBeFirstLeader bool) {
				mu.Lock()
				defer mu.Unlock()
				roundHs = append(roundHs, uint64(newHeight))
				if stopped {
					late++
				}
			})
			ctx, cancel := context.WithCancel(context.Background())
			ml.Run(ctx)
			net := &Net{w: w}
			tctx, tc := context.WithTimeout(ctx, time.Second)
			ml.UpdateState(tctx, nil, nil)
			tc()
			if kind == "elected-request-timer" {
				// member 1 leads view 1: the votes of members 2 and 3 for view 1 arrive, its own election timer of view 0
				// (40 ms) fires, it is elected with its own vote and asks its consumer for a block (the gate blocks)
				a := &Adversary{net: net, km: &FakeKeyManager{w: w, me: memberId(2)}}
				for _, m := range []int{2, 3} {
					tctx, tc := context.WithTimeout(ctx, time.Second)
					ml.HandleConsensusMessage(tctx, a.mkVC(a.vcContent(memberId(m), protocol.LEAN_HELIX_VIEW_CHANGE, 100, 1, 1, nil), nil))
					tc()
				}
			}
			if kind == "validate" {
				b := &FakeBlock{H: 1, Id: 77}
				a := &Adversary{net: net, km: &FakeKeyManager{w: w, me: memberId(0)}}
				tctx, tc := context.WithTimeout(ctx, time.Second)
				ml.HandleConsensusMessage(tctx, a.mkPP(memberId(0), 100, 1, 0, b))
				tc()
			}
			if kind == "flood-then-sync" {
				// C12 / C14: while the worker sits in a context-bound SPI call, more messages arrive than its inbox holds;
				// the main loop must keep reading its channels: the API must not block and a node sync must still take effect
				select {
				case <-inSpi:
				case <-time.After(2 * time.Second):
				}
				blocked := 0
				for k := 0; k < 1300 && blocked == 0; k++ {
					tctx, tc := context.WithTimeout(ctx, 500*time.Millisecond)
					ml.HandleConsensusMessage(tctx, mkBareRaw(1+k%2, 100, 1, 0, memberId(1+k%3)))
					if tctx.Err() != nil {
						blocked = k + 1
					}
					tc()
				}
				if blocked > 0 {
					c.Violation("C12", "mainloop-stopped-reading", fmt.Sprintf("HandleConsensusMessage blocked at message %d of a burst sent while the worker was inside RequestNewBlockProposal", blocked), "shutdown-scenario "+kind)
				}
				tctx, tc := context.WithTimeout(ctx, 2*time.Second)
				err := ml.UpdateState(tctx, &FakeBlock{H: 3, Id: 1}, net.syncProof(3))
				tc()
				if err != nil {
					c.Violation("C14", "updatestate-blocked", fmt.Sprintf("UpdateState(3) after a burst of 1300 messages while the worker was inside RequestNewBlockProposal: %v", err), "shutdown-scenario "+kind)
				} else {
					ok := false
					for k := 0; k < 400 && !ok; k++ {
						time.Sleep(5 * time.Millisecond)
						ok = uint64(ml.State().Height()) == 4
					}
					if !ok {
						c.Violation("C14", "sync-not-effective", fmt.Sprintf("UpdateState(block 3) accepted after a message burst; two seconds later the node decides height %d", uint64(ml.State().Height())), "shutdown-scenario "+kind)
					}
				}
			} else if kind == "two-syncs" {
				// C14: two node syncs of increasing height arrive back to back while the worker is still inside an SPI call
				// (it has not read the first when the second arrives): the newest must take effect
				select {
				case <-inSpi:
				case <-time.After(2 * time.Second):
				}
				var errs []error
				for _, hh := range []uint64{2, 4} {
					tctx, tc := context.WithTimeout(ctx, time.Second)
					errs = append(errs, ml.UpdateState(tctx, &FakeBlock{H: hh, Id: 1}, net.syncProof(hh)))
					tc()
				}
				if errs[0] != nil || errs[1] != nil {
					c.Violation("C14", "updatestate-blocked", fmt.Sprintf("UpdateState(2), UpdateState(4) while the worker was inside RequestNewBlockProposal: %v %v", errs[0], errs[1]), "shutdown-scenario "+kind)
				} else {
					ok := false
					for k := 0; k < 400 && !ok; k++ {
						time.Sleep(5 * time.Millisecond)
						ok = uint64(ml.State().Height()) == 5
					}
					if !ok {
						c.Violation("C14", "sync-not-effective", fmt.Sprintf("UpdateState(block 2) and UpdateState(block 4) were accepted back to back while the worker was busy; two seconds later the node decides height %d, not 5", uint64(ml.State().Height())), "shutdown-scenario "+kind)
					}
				}
			} else if kind == "flood-then-election" {
				// C15: the worker sits in RequestNewBlockProposal of (1,0) while more messages arrive than its inbox
				// holds; then the election timer of (1,0) fires: the context of the blocked call must be cancelled
				select {
				case <-inSpi:
				case <-time.After(2 * time.Second):
				}
				for k := 0; k < 1300; k++ {
					tctx, tc := context.WithTimeout(ctx, 20*time.Millisecond)
					ml.HandleConsensusMessage(tctx, mkBareRaw(1+k%2, 100, 1, 0, memberId(1+k%3)))
					blocked := tctx.Err() != nil
					tc()
					if blocked {
						break
					}
				}
				trig := &interfaces.ElectionTrigger{Hv: state.NewHeightView(1, 0), MoveToNextLeader: func() { el.Fire(1, 0) }}
				select {
				case el.ch <- trig:
				case <-time.After(time.Second):
				}
				ok := false
				for k := 0; k < 200 && !ok; k++ {
					time.Sleep(5 * time.Millisecond)
					ok = atomic.LoadInt32(&sawDone) == 1
				}
				if !ok {
					c.Violation("C15", "spi-context-not-cancelled-on-election", "the election timer of (1,0) fired after a burst of 1300 messages while the worker was inside RequestNewBlockProposal of (1,0): one second later the call's context is still live", "shutdown-scenario "+kind)
				}
			} else if strings.HasPrefix(kind, "membership") {
				time.Sleep(time.Duration(5+r.Intn(30)) * time.Millisecond)
			} else {
				select {
				case <-inSpi:
				case <-time.After(2 * time.Second):
					c.Class("shutdown-scenario/" + kind + "/spi-not-reached")
				}
			}
			if kind == "timer-out-of-committee" {
				tctx, tc := context.WithTimeout(ctx, time.Second)
				err := ml.UpdateState(tctx, &FakeBlock{H: 2, Id: 1}, net.syncProof(2))
				tc()
				ok := err == nil
				for k := 0; k < 200 && ok && uint64(ml.State().Height()) != 3; k++ {
					time.Sleep(5 * time.Millisecond)
				}
				if !ok || uint64(ml.State().Height()) != 3 {
					c.Class("shutdown-scenario/" + kind + "/not-reached")
				}
			}
			if kind == "membership-then-sync-same" {
				// C14 / C15: a sync with the block of exactly the height being decided must release the worker from the
				// committee polling of that height (a term-level context) and take effect
				fm.mu.Lock()
				fm.failFor = fm.calls + 2
				fm.mu.Unlock()
				tctx, tc := context.WithTimeout(ctx, time.Second)
				err := ml.UpdateState(tctx, &FakeBlock{H: 1, Id: 1}, net.syncProof(1))
				tc()
				if err != nil {
					c.Violation("C14", "updatestate-blocked", fmt.Sprintf("UpdateState(1) while the worker polls a failing committee contract for height 1: %v", err), "shutdown-scenario "+kind)
				} else {
					ok := false
					for k := 0; k < 200 && !ok; k++ {
						time.Sleep(5 * time.Millisecond)
						ok = uint64(ml.State().Height()) == 2
					}
					if !ok {
						c.Violation("C15", "term-context-not-released-by-sync", fmt.Sprintf("UpdateState(block 1) accepted while the worker polled the committee contract for height 1 under that height's term context; one second later the node decides height %d", uint64(ml.State().Height())), "shutdown-scenario "+kind)
					}
				}
			}
			if kind == "membership-then-sync" {
				// C14: a sync must get the worker out of the polling loop of the old height and take effect
				fm.mu.Lock()
				fm.failFor = fm.calls + 2
				fm.mu.Unlock()
				tctx, tc := context.WithTimeout(ctx, time.Second)
				err := ml.UpdateState(tctx, &FakeBlock{H: 7, Id: 1}, net.syncProof(7))
				tc()
				if err != nil {
					c.Violation("C14", "updatestate-blocked", fmt.Sprintf("UpdateState(7) while the worker polls a failing committee contract: %v", err), "shutdown-scenario "+kind)
				} else {
					ok := false
					for k := 0; k < 200 && !ok; k++ {
						time.Sleep(5 * time.Millisecond)
						ok = uint64(ml.State().Height()) == 8
					}
					if !ok {
						c.Violation("C14", "sync-not-effective", fmt.Sprintf("UpdateState(block 7) accepted while the worker polled the committee contract for height %d; one second later the node decides height %d", 1, uint64(ml.State().Height())), "shutdown-scenario "+kind)
					}
				}
			}
			t0 := time.Now()
			cancel()
			if kind == "request" || kind == "validate" || kind == "request-timer" || kind == "elected-request-timer" {
				// C15: the context the blocked SPI call waits on is cancelled by the shutdown
				ok := false
				for k := 0; k < 200 && !ok; k++ {
					time.Sleep(5 * time.Millisecond)
					ok = atomic.LoadInt32(&sawDone) == 1
				}
				if !ok {
					c.Violation("C15", "spi-context-not-cancelled-on-shutdown", fmt.Sprintf("the context of the %s call the worker is blocked in is still live one second after the context given to Run was cancelled", kind), "shutdown-scenario "+kind)
				}
			}
			wctx, wc := context.WithTimeout(context.Background(), 3*time.Second)
			ml.WaitUntilShutdown(wctx)
			timedOut := wctx.Err() != nil
			wc()
			took := time.Since(t0)
			mu.Lock()
			stopped = true
			mu.Unlock()
			live, which := libraryGoroutines()
			if live > 0 && strings.Count(which, "(*TimerBasedElectionTrigger)") == live {
				// only timer callbacks: a fired timer whose callback the shutdown has just cancelled may still be on its way
				// out (it can do nothing any more); it must be gone a moment later — a leak is judged below as well
				time.Sleep(25 * time.Millisecond)
				live, which = libraryGoroutines()
			}
			fm.mu.Lock()
			callsAtShutdown := fm.calls
			fm.mu.Unlock()
			if timedOut || took > 2*time.Second {
				c.Violation("C16", "shutdown-slow", fmt.Sprintf("cancelled while the worker was in %s: WaitUntilShutdown took %v (the SPI returns %v after cancellation)", kind, took, linger), "shutdown-scenario "+kind)
			} else if live > 0 {
				c.Violation("C16", "loop-alive-after-shutdown", fmt.Sprintf("cancelled while the worker was in %s: WaitUntilShutdown returned after %v but %d library goroutines are still running (%s)", kind, took, live, which), "shutdown-scenario "+kind)
			}
			time.Sleep(linger + 60*time.Millisecond)
			if kind == "request-timer" || kind == "elected-request-timer" {
				time.Sleep(120 * time.Millisecond) // well past the election timeout armed before the shutdown
			}
			if kind == "timer-out-of-committee" {
				time.Sleep(260 * time.Millisecond)
			}
			mu.Lock()
			if late > 0 {
				c.Violation("C16", "activity-after-shutdown", fmt.Sprintf("cancelled while the worker was in %s: %d callbacks after WaitUntilShutdown returned", kind, late), "shutdown-scenario "+kind)
			}
			mu.Unlock()
			fm.mu.Lock()
			if fm.calls > callsAtShutdown+1 {
				c.Violation("C16", "activity-after-shutdown", fmt.Sprintf("%d committee requests after WaitUntilShutdown returned", fm.calls-callsAtShutdown), "shutdown-scenario "+kind)
			}
			fm.mu.Unlock()
			if live2, which2 := libraryGoroutines(); live2 > 0 && !timedOut {
				c.Violation("C16", "goroutine-leak", fmt.Sprintf("cancelled while the worker was in %s: %d library goroutines still exist %v after shutdown (%s)", kind, live2, linger+60*time.Millisecond, which2), "shutdown-scenario "+kind)
			}
			close(release)
			if timedOut {
				// do not let a stuck node poison the following scenarios' goroutine counts
				time.Sleep(50 * time.Millisecond)
			}
			c.Class("shutdown-scenario/" + kind)
			c.Nontrivial(fmt.Sprintf("shutdown-scenario/%s/%d", kind, int(linger/(50*time.Millisecond))))
		}
	}
}
