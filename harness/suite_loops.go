package main

import (
	"context"
	"fmt"
	"runtime"
	"sync"
	"time"

	leanhelix "github.com/orbs-network/lean-helix-go"
	"github.com/orbs-network/lean-helix-go/services/interfaces"
	"github.com/orbs-network/lean-helix-go/spec/types/go/primitives"
)

func init() { suites["loops"] = suiteLoops }

func (net *Net) shutdownAll() {
	for _, n := range net.order {
		if n.Main != nil && !n.Down {
			n.Cancel()
			wctx, c := context.WithTimeout(context.Background(), 3*time.Second)
			n.Main.WaitUntilShutdown(wctx)
			c()
			n.Down = true
		}
	}
}

// suiteLoops: one member of each scenario runs as a full MainLoop (main + worker goroutines) and is
// driven through the public API under a serialised schedule (next event only when both loops are
// idle), so that its observable behaviour can be compared with the Loops model step by step; the
// other members are worker-level real nodes producing honest traffic. Then the context is cancelled
// and the shutdown properties are judged. A concurrent stress phase (no model comparison) follows.
func suiteLoops(c *Ctx) {
	r := c.Rng
	nsc := 12
	if c.Thorough() {
		nsc = 150
	}
	base := runtime.NumGoroutine()
	for i := 0; i < nsc; i++ {
		n := 4 + r.Intn(3)
		ws := make([]uint64, n)
		for k := range ws {
			ws[k] = uint64(1 + r.Intn(2))
		}
		mainIdx := r.Intn(n)
		net := NewNet(c, NetOpts{N: n, Weights: ws, Inst: 100, MainIdx: []int{mainIdx}}, fmt.Sprintf("loops n=%d weights=%v main=%d", n, ws, mainIdx))
		M := net.nodes[string(memberId(mainIdx))]
		prof := SchedProfile{Drop: 20, Dup: 30, Timeout: 40, StaleTimeout: 300, Sync: 60, CancelDuring: 0, CommitFail: 10, MaxSteps: 150 + r.Intn(150), MaxHeight: 3}
		net.run(prof)
		// sync patterns on the MainLoop node: repeated, decreasing, bursts
		hNow := uint64(M.St.Height())
		for _, h := range []uint64{hNow + 2, hNow + 2, hNow, hNow + 5, hNow + 1, 1, hNow + 5, hNow + 6} {
			before := uint64(M.St.Height())
			beforeSnap := stateOnly(M.snapshot())
			net.sync(M, h)
			after := uint64(M.St.Height())
			// C14 monitors (serialised): an accepted sync takes effect; a stale one changes nothing; never first leader after sync
			if h >= before && after <= h {
				c.Violation("C14", "sync-not-effective", fmt.Sprintf("UpdateState(block %d) returned while the node was deciding height %d; afterwards it decides height %d", h, before, after), net.replay())
			}
			if h+1 < before && stateOnly(M.snapshot()) != beforeSnap {
				c.Violation("C14", "stale-sync-changed-state", fmt.Sprintf("UpdateState(block %d) below the current height %d changed the node: %s -> %s", h, before, beforeSnap, stateOnly(M.snapshot())), net.replay())
			}
			if len(M.Rounds) > 0 && after > before {
				last := M.Rounds[len(M.Rounds)-1]
				if last.CanBeFirst && last.H == after {
					c.Violation("C14", "first-leader-after-sync", fmt.Sprintf("the round of height %d entered by sync may act as first leader", after), net.replay())
				}
			}
			c.Nontrivial(fmt.Sprintf("sync/%d/%d/%d", before, h, after))
		}
		// a few more protocol steps, then cancellation at this (random) point
		prof.MaxSteps = net.steps + r.Intn(60)
		prof.MaxHeight = 1 << 40
		net.run(prof)
		commitsBefore, roundsBefore, sentBefore := len(M.Commits), len(M.Rounds), len(M.Sent)
		spi, out, took := M.Shutdown()
		line := fmt.Sprintf("%d lcancel", M.Idx)
		if spi != "" {
			line += " " + spi
		}
		c.Emit(line, out)
		net.history = append(net.history, line)
		if took > time.Second {
			c.Violation("C16", "shutdown-slow", fmt.Sprintf("WaitUntilShutdown took %v", took), net.replay())
		}
		// everything after cancellation must be a no-op and return promptly
		t0 := time.Now()
		net.sync(M, uint64(M.St.Height())+3)
		net.timeout(M, false)
		if len(net.seen) > 0 {
			net.deliverFlight(&Flight{To: M.Id, From: nil, Raw: net.seen[r.Intn(len(net.seen))].Raw, Byz: true})
		}
		if time.Since(t0) > 500*time.Millisecond {
			c.Violation("C16", "api-blocks-after-cancel", fmt.Sprintf("API calls with the cancelled context took %v", time.Since(t0)), net.replay())
		}
		time.Sleep(10 * time.Millisecond)
		if len(M.Commits) != commitsBefore || len(M.Rounds) != roundsBefore || len(M.Sent) != sentBefore {
			c.Violation("C16", "activity-after-shutdown", fmt.Sprintf("after shutdown: commits %d->%d rounds %d->%d sends %d->%d", commitsBefore, len(M.Commits), roundsBefore, len(M.Rounds), sentBefore, len(M.Sent)), net.replay())
		}
		if M.El.FakeElection.Armed {
			c.Violation("C16", "timer-armed-after-shutdown", "the election timer is still armed after shutdown", net.replay())
		}
		c.Class(fmt.Sprintf("scenario/loops/n%d", n))
		c.Nontrivial(fmt.Sprintf("cancel/h%d/v%d", uint64(M.St.Height()), uint64(M.St.View())))
	}
	// goroutines must be back to the baseline
	time.Sleep(50 * time.Millisecond)
	if g := runtime.NumGoroutine(); g > base+2 {
		c.Violation("C16", "goroutine-leak", fmt.Sprintf("%d goroutines before the scenarios, %d after all nodes were shut down", base, g), "suite loops")
	}
	stressLoops(c)
}

// stressLoops: many concurrent API callers against one running MainLoop with the REAL timer-based
// election trigger (1 ms base), random cancellation; only monitors judge (C13, C14, C16).
func stressLoops(c *Ctx) {
	r := c.Rng
	rounds := 6
	if c.Thorough() {
		rounds = 60
	}
	for it := 0; it < rounds; it++ {
		base := runtime.NumGoroutine()
		w := NewWorld(100)
		var members []interfaces.CommitteeMember
		for i := 0; i < 4; i++ {
			members = append(members, interfaces.CommitteeMember{Id: memberId(i), Weight: 1})
		}
		w.Committee = func(h uint64) []interfaces.CommitteeMember { return members }
		cfg, _, _, _ := simpleConfig(w, memberId(it%4))
		cfg.OverrideElectionTrigger = nil
		cfg.ElectionTimeoutOnV0 = time.Millisecond
		var mu sync.Mutex
		var commitHs, roundHs []uint64
		stopped := false
		late := 0
		ml := leanhelix.NewLeanHelix(cfg, func(ctx context.Context, block interfaces.Block, blockProof []byte) error {
			mu.Lock()
			defer mu.Unlock()
			commitHs = append(commitHs, uint64(block.Height()))
			if stopped {
				late++
			}
			return nil
		}, func(ctx context.Context, newHeight primitives.BlockHeight, prevBlock interfaces.Block, canBeFirstLeader bool) {
			mu.Lock()
			defer mu.Unlock()
			roundHs = append(roundHs, uint64(newHeight))
			if stopped {
				late++
			}
		})
		ctx, cancel := context.WithCancel(context.Background())
		defer cancel()
		ml.Run(ctx)
		var wg sync.WaitGroup
		var maxSync uint64
		net := &Net{w: w}
		for g := 0; g < 6; g++ {
			wg.Add(1)
			seed := r.Int63()
			go func(g int) {
				defer wg.Done()
				rr := newRand(seed)
				for k := 0; k < 150; k++ {
					tctx, tc := context.WithTimeout(ctx, 300*time.Millisecond)
					switch rr.Intn(3) {
					case 0:
						h := uint64(rr.Intn(40))
						if err := ml.UpdateState(tctx, &FakeBlock{H: h, Id: 1}, net.syncProof(h)); err == nil {
							mu.Lock()
							if h > maxSync {
								maxSync = h
							}
							mu.Unlock()
						} else if ctx.Err() == nil {
							c.Violation("C14", "updatestate-blocked", fmt.Sprintf("UpdateState(%d) did not return within 300ms while the loops run", h), "stress")
						}
					default:
						ml.HandleConsensusMessage(tctx, mkBareRaw(rr.Intn(5), 100, uint64(rr.Intn(40)), uint64(rr.Intn(3)), memberId(rr.Intn(4))))
					}
					tc()
				}
			}(g)
		}
		// samples of the observable (height, view): never decreasing lexicographically
		go func() {
			var lh, lv uint64
			for ctx.Err() == nil {
				hv := ml.State().HeightView()
				h, v := uint64(hv.Height()), uint64(hv.View())
				if h < lh || (h == lh && v < lv) {
					c.Violation("C13", "state-decreased", fmt.Sprintf("(height,view) sampled (%d,%d) after (%d,%d)", h, v, lh, lv), "stress")
				}
				lh, lv = h, v
				time.Sleep(20 * time.Microsecond)
			}
		}()
		cancelEarly := r.Intn(2) == 0
		if cancelEarly {
			time.Sleep(time.Duration(r.Intn(3000)) * time.Microsecond)
			cancel()
		}
		wg.Wait()
		if !cancelEarly {
			time.Sleep(20 * time.Millisecond)
			// C14: the newest accepted sync takes effect
			mu.Lock()
			ms := maxSync
			mu.Unlock()
			if h := uint64(ml.State().Height()); h <= ms {
				c.Violation("C14", "sync-not-effective", fmt.Sprintf("UpdateState(block %d) was accepted but the node decides height %d", ms, h), "stress")
			}
			cancel()
		}
		t0 := time.Now()
		wctx, wc := context.WithTimeout(context.Background(), 3*time.Second)
		ml.WaitUntilShutdown(wctx)
		wc()
		if d := time.Since(t0); d > time.Second {
			c.Violation("C16", "shutdown-slow", fmt.Sprintf("WaitUntilShutdown took %v under load", d), "stress")
		}
		mu.Lock()
		stopped = true
		mu.Unlock()
		time.Sleep(30 * time.Millisecond)
		mu.Lock()
		if late > 0 {
			c.Violation("C16", "activity-after-shutdown", fmt.Sprintf("%d callbacks after WaitUntilShutdown returned", late), "stress")
		}
		for i := 1; i < len(roundHs); i++ {
			if roundHs[i] <= roundHs[i-1] {
				c.Violation("C13", "round-height-not-increasing", fmt.Sprintf("new-round callback heights %v", roundHs), "stress")
				break
			}
		}
		mu.Unlock()
		if g := runtime.NumGoroutine(); g > base+1 {
			time.Sleep(100 * time.Millisecond)
			if g = runtime.NumGoroutine(); g > base+1 {
				c.Violation("C16", "goroutine-leak", fmt.Sprintf("%d goroutines before Run, %d after shutdown (real timer-based trigger)", base, g), "stress")
			}
		}
		c.Class(fmt.Sprintf("stress/early%v", cancelEarly))
		c.Nontrivial(fmt.Sprintf("stress/%d/%d", it, len(roundHs)))
	}
}
