package main

import (
	"bytes"
	"context"
	"fmt"
	"strings"

	"github.com/orbs-network/lean-helix-go/services/interfaces"
	"github.com/orbs-network/lean-helix-go/services/randomseed"
	"github.com/orbs-network/lean-helix-go/spec/types/go/primitives"
	"github.com/orbs-network/lean-helix-go/spec/types/go/protocol"
)

func init() { suites["blockproof"] = suiteBlockProof }

func verdictOf(err error) string {
	if err == nil {
		return "ok"
	}
	s := err.Error()
	switch {
	case strings.Contains(s, "context canceled"):
		return "errCtx"
	case strings.Contains(s, "nil block"):
		if strings.Contains(s, "nil blockProof") {
			return "errNilProof"
		}
		return "errNilBlock"
	case strings.Contains(s, "malformed blockProof"):
		return "errNilProof"
	case strings.Contains(s, "Message is not COMMIT"):
		return "errType"
	case strings.Contains(s, "Mismatched InstanceID"):
		return "errInstance"
	case strings.Contains(s, "Mismatched height"):
		return "errHeight"
	case strings.Contains(s, "ValidateBlockCommitment() failed"):
		return "errCommitment"
	case strings.Contains(s, "VerifyBlockRefMessage() failed"):
		return "errSignature"
	case strings.Contains(s, "Could not read memberId"):
		return "errDuplicate"
	case strings.Contains(s, "is not part of committee"):
		return "errNotMember"
	case strings.Contains(s, "is not more than byz weight"), strings.Contains(s, "is less than quorum"):
		return "errWeight"
	case strings.Contains(s, "does not contain randomSeed"):
		return "errNoSeed"
	case strings.Contains(s, "ValidateRandomSeed() failed"):
		return "errSeed"
	}
	return "err?:" + s
}

func suiteBlockProof(c *Ctx) {
	r := c.Rng
	total := 2500
	if c.Thorough() {
		total = 80000
	}
	defer func() { idScheme = 0 }()
	defer blockProofOverlap(c)
	for it := 0; it < total; it++ {
		idScheme = []int{0, 0, 1, 2}[it%4] // long ids sharing a prefix: abbreviations must not be used as identities
		inst := uint64(100 + r.Intn(2))
		w := NewWorld(inst)
		n := 4 + r.Intn(5)
		ws := make([]uint64, n)
		var W uint64
		for k := range ws {
			ws[k] = uint64(1 + r.Intn(4))
			if r.Intn(15) == 0 {
				ws[k] = 0
			}
			if it%16 == 15 && ws[k] > 0 {
				ws[k] += (uint64(1) << 63) / uint64(n) // the committee's total weight lies between 2^63 and 2^64
			}
			W += ws[k]
		}
		var members []interfaces.CommitteeMember
		for i := 0; i < n; i++ {
			members = append(members, interfaces.CommitteeMember{Id: memberId(i), Weight: primitives.MemberWeight(ws[i])})
		}
		h := uint64(1 + r.Intn(5))
		// the committee depends on the height: every other height has partly other members and other weights, so a lookup
		// with the wrong height (e.g. the previous block's) judges the proof against the wrong committee
		var others []interfaces.CommitteeMember
		for i := 0; i < n; i++ {
			others = append(others, interfaces.CommitteeMember{Id: memberId(i + 2), Weight: primitives.MemberWeight(1 + uint64((i*7+3)%5))})
		}
		w.Committee = func(hh uint64) []interfaces.CommitteeMember {
			if hh == h {
				return members
			}
			return others
		}
		node := NewRealNode(w, 0, memberId(0), nil)
		km := node.KM
		blk := &FakeBlock{H: h, Id: uint64(it)}
		v := uint64(r.Intn(3))
		// the genuine ingredients
		typ, pinst, ph, hash := protocol.LEAN_HELIX_COMMIT, inst, h, blockHash(blk)
		mutation := r.Intn(18)
		switch mutation {
		case 1:
			typ = []protocol.MessageType{protocol.LEAN_HELIX_PREPARE, protocol.LEAN_HELIX_PREPREPARE, 0, 7}[r.Intn(4)]
		case 2:
			pinst++
		case 3:
			ph += uint64(1 + r.Intn(2))
		case 4:
			hash = []byte{1, 2, 3}
		}
		ref := &protocol.BlockRefBuilder{MessageType: typ, InstanceId: primitives.InstanceId(pinst), BlockHeight: primitives.BlockHeight(ph), View: primitives.View(v), BlockHash: hash}
		refRaw := ref.Build().Raw()
		// signer set: aim at a weight class relative to f and Q
		f := uint64(0)
		if W > 0 {
			f = (W - 1) / 3
		}
		Q := W - f
		target := []uint64{Q, Q - 1, f, f + 1, W, 0, Q + 1}[r.Intn(7)]
		if Q == 0 {
			target = 0
		}
		perm := r.Perm(n)
		var signers [][]byte
		var acc uint64
		for _, k := range perm {
			if acc >= target {
				break
			}
			signers = append(signers, memberId(k))
			acc += ws[k]
		}
		switch mutation {
		case 5: // duplicate signer
			if len(signers) > 0 {
				signers = append(signers, signers[r.Intn(len(signers))])
			}
		case 6: // outsider with a valid key
			signers = append(signers, outsiderId(1))
		case 7: // outsider first
			signers = append([][]byte{outsiderId(2)}, signers...)
		case 16: // outsiders only (valid keys; under id schemes 1 and 2 their ids share a long prefix with the members' ids), as many as would make a quorum of members
			k := len(signers)
			if k == 0 {
				k = n
			}
			signers = nil
			for j := 0; j < k; j++ {
				signers = append(signers, outsiderId(j))
			}
		}
		var nodes []*protocol.SenderSignatureBuilder
		for i, id := range signers {
			sig := km.SignAs(id, ph, refRaw)
			if mutation == 8 && i == len(signers)-1 { // one bad signature
				sig = append([]byte{}, sig...)
				sig[0] ^= 1
			}
			if mutation == 17 && i < len(signers)-1 { // every signature but the last is forged (ids of genuine members, garbage signatures)
				sig = append([]byte("forged-"), byte(i))
			}
			if mutation == 9 && i == 0 { // signature over another ref (e.g. a PREPARE of the same block)
				other := &protocol.BlockRefBuilder{MessageType: protocol.LEAN_HELIX_PREPARE, InstanceId: primitives.InstanceId(pinst), BlockHeight: primitives.BlockHeight(ph), View: primitives.View(v), BlockHash: hash}
				sig = km.SignAs(id, ph, other.Build().Raw())
			}
			nodes = append(nodes, &protocol.SenderSignatureBuilder{MemberId: id, Signature: sig})
		}
		// previous proof and the aggregated seed signature
		prevProof := []byte(nil)
		if h > 1 && r.Intn(4) > 0 {
			prevProof = (&protocol.BlockProofBuilder{BlockRef: &protocol.BlockRefBuilder{MessageType: protocol.LEAN_HELIX_COMMIT}, RandomSeedSignature: []byte{byte(r.Intn(256)), 7}}).Build().Raw()
		}
		seed := randomseed.CalculateRandomSeed(protocol.BlockProofReader(prevProof).RandomSeedSignature())
		seedSig := w.AggSig(h, seed)
		switch mutation {
		case 10:
			seedSig = nil
		case 11:
			seedSig = []byte{9, 9, 9}
		case 12:
			seedSig = w.AggSig(h+1, seed)
		}
		proofBytes := (&protocol.BlockProofBuilder{BlockRef: ref, Nodes: nodes, RandomSeedSignature: seedSig}).Build().Raw()
		mname := fmt.Sprintf("m%d", mutation)
		if mutation == 13 { // byte-level damage
			proofBytes, mname = mutateBytes(r, proofBytes)
			mname = "bytes-" + mname
		}
		if mutation == 14 {
			proofBytes = nil
		}
		var block interfaces.Block = blk
		if mutation == 15 && r.Intn(2) == 0 {
			block = nil
		}
		soft := r.Intn(2) == 0
		ctx, cancel := context.WithCancel(context.Background())
		ctxc := r.Intn(40) == 0
		if ctxc {
			cancel()
		}
		var prev interfaces.Block
		if h > 1 {
			prev = &FakeBlock{H: h - 1}
		}
		var err error
		panicked := false
		call := func(cx context.Context, softMode bool) (e error, pan bool) {
			defer func() {
				if rec := recover(); rec != nil {
					pan = true
				}
			}()
			if block == nil {
				return node.Worker.ValidateBlockConsensus(cx, nil, proofBytes, prev, prevProof, softMode), false
			}
			return node.Worker.ValidateBlockConsensus(cx, block, proofBytes, prev, prevProof, softMode), false
		}
		err, panicked = call(ctx, soft)
		cancel()
		out := verdictOf(err)
		if panicked {
			out = "panic"
			c.Violation("C02", "validate-panic", "ValidateBlockConsensus panicked", fmt.Sprintf("proof=%x", proofBytes))
		}
		// decode for the model (unreadable or empty bytes -> "-")
		proofTok := "-"
		genuine := false
		genuineOf := func(softMode bool) bool { return false }
		if len(proofBytes) > 0 {
			func() {
				defer func() {
					if rec := recover(); rec != nil {
						proofTok = "-"
					}
				}()
				bp := protocol.BlockProofReader(proofBytes)
				_ = bp.String()
				rf := bp.BlockRef()
				var ss []string
				ids := map[string]bool{}
				allOk, distinct, allMembers := true, true, true
				var weight uint64
				it := bp.NodesIterator()
				for it.HasNext() {
					s := it.NextNodes()
					ok := km.VerifyConsensusMessage(rf.BlockHeight(), rf.Raw(), s) == nil
					ss = append(ss, fmt.Sprintf("S(%s;%s)", hexid(s.MemberId()), b01(ok)))
					allOk = allOk && ok
					if ids[string(s.MemberId())] {
						distinct = false
					}
					ids[string(s.MemberId())] = true
					isM := false
					for k, m := range members {
						if bytes.Equal(m.Id, s.MemberId()) {
							isM = true
							weight += ws[k]
						}
					}
					allMembers = allMembers && isM
				}
				master := (&protocol.SenderSignatureBuilder{Signature: primitives.Signature(bp.RandomSeedSignature())}).Build()
				seedOk := km.VerifyRandomSeed(primitives.BlockHeight(h), randomseed.RandomSeedToBytes(seed), master) == nil
				proofTok = fmt.Sprintf("BP(%s;[%s];%s;%s)", node.enc.ref(rf), strings.Join(ss, ","), b01(len(bp.RandomSeedSignature()) == 0), b01(seedOk))
				// independent reference of the property's acceptance condition
				rest := block != nil && rf.MessageType() == protocol.LEAN_HELIX_COMMIT && uint64(rf.InstanceId()) == inst &&
					uint64(rf.BlockHeight()) == h && bytes.Equal(rf.BlockHash(), blockHash(blk)) && allOk && distinct && allMembers &&
					len(bp.RandomSeedSignature()) > 0 && seedOk
				genuineOf = func(softMode bool) bool {
					wOk := weight >= Q
					if softMode {
						wOk = weight > f
					}
					if W == 0 {
						wOk = softMode && weight > 0
						if !softMode {
							wOk = weight >= 1
						}
					}
					return rest && wOk
				}
				genuine = !ctxc && genuineOf(soft)
			}()
		}
		if err == nil && !panicked && !genuine {
			c.Violation("C02", "accepted-not-genuine", fmt.Sprintf("ValidateBlockConsensus accepted a proof that is not a genuine commit certificate (mutation %s, soft=%v)", mname, soft), fmt.Sprintf("proof=%x", proofBytes))
		}
		if genuine && err != nil {
			c.Class("genuine-rejected?") // completeness is checked by the model comparison
		}
		blockTok := "-"
		if block != nil {
			blockTok = node.enc.block(block)
		}
		if proofTok == "-" && len(proofBytes) > 0 {
			// some field of the damaged proof cannot be read; the real function reads lazily and may fail earlier
			// with another error: only "rejected" is compared
			rej := "rejected"
			if err == nil && !panicked {
				rej = "ACCEPTED"
			}
			c.Emit("unreadable", rej)
		} else {
			c.Emit(fmt.Sprintf("validate %s %s %s %d %s %s", b2s(ctxc), blockTok, proofTok, inst, fmtMembers(members), b2s(soft)), out)
		}
		c.Class(mname + "/" + out)
		c.Nontrivial(fmt.Sprintf("%s/%s/%v/%d", mname, out, soft, len(signers)))
		// the same inputs once more, on the same node, in the other mode: a verdict is a function of the
		// inputs and the mode, never of what was validated before (soft acceptance must not leak into strict)
		if !ctxc && proofTok != "-" && !panicked {
			err2, pan2 := call(context.Background(), !soft)
			out2 := verdictOf(err2)
			if pan2 {
				out2 = "panic"
				c.Violation("C02", "validate-panic", "ValidateBlockConsensus panicked (second call)", fmt.Sprintf("proof=%x", proofBytes))
			}
			if err2 == nil && !pan2 && !genuineOf(!soft) {
				c.Violation("C02", "accepted-not-genuine", fmt.Sprintf("ValidateBlockConsensus accepted a proof that is not a genuine commit certificate when asked again with soft=%v after soft=%v (mutation %s)", !soft, soft, mname), fmt.Sprintf("proof=%x", proofBytes))
			}
			c.Emit(fmt.Sprintf("validate %s %s %s %d %s %s", b2s(false), blockTok, proofTok, inst, fmtMembers(members), b2s(!soft)), out2)
			c.Class("again/" + mname + "/" + out2)
		}
	}
}
