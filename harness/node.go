package main

import (
	"context"
	"errors"
	"fmt"
	"strings"
	"sync"
	"sync/atomic"
	"time"

	leanhelix "github.com/orbs-network/lean-helix-go"
	"github.com/orbs-network/lean-helix-go/services/interfaces"
	"github.com/orbs-network/lean-helix-go/services/logger"
	"github.com/orbs-network/lean-helix-go/services/storage"
	"github.com/orbs-network/lean-helix-go/spec/types/go/primitives"
	"github.com/orbs-network/lean-helix-go/state"
	"github.com/orbs-network/scribe/log"
)

// RealNode drives one real WorkerLoop (filter + term + storage + factory) synchronously through
// the verif hooks and records, per event, the SPI answers given and everything the node did.
type RealNode struct {
	mu     sync.Mutex
	Main   *leanhelix.MainLoop // non-nil: the node is driven through the public API of a running MainLoop (two goroutines)
	Cancel context.CancelFunc
	barrierSeen int64
	Down   bool
	runCtx context.Context
	Idx    int
	Id     []byte
	W      *World
	St     *state.State
	Worker *leanhelix.WorkerLoop
	Cfg    *interfaces.Config
	BU     *recBlockUtils
	El     *recElection
	KM     *FakeKeyManager

	outs []string // effects of the current event, in order
	Stored []string // successful Storage.Store* calls of the current event
	Approved map[uint64]bool // blocks this node's consumer validated
	Proposed map[uint64]bool // blocks this node's consumer proposed
	Store *recStorage
	spi  []string // SPI answers of the current event, in order

	// scenario knobs
	Verdict       func(b *FakeBlock) bool
	CancelDuring  int // 0: no; 1: during the next SPI call the main loop handles the election trigger of the current view; 2: a late trigger of the previous view; 3: of view 0
	CommitCbFails bool
	SendErr       func() bool // the transport's SendConsensusMessage returns an error (the message still goes out)
	PrevProof     []byte
	Panicked      string
	MonViol       func(prop, sig, what string) // set by the scenario: report a monitor violation
	reqCancelled  bool                        // the context of the last RequestNewBlockProposal was cancelled when it returned
	AheadUntil    uint64                      // a node sync accepted by the main loop has cancelled every context below this height
	CancelledH, CancelledV uint64             // an election trigger handled by the main loop during an SPI call has cancelled every context of height CancelledH below view CancelledV
	CurProposalHeight uint64                  // height of that message: a commit inside the delivery starts the next height and drains its cached proposals, which are not this message
	CurProposalView *uint64                   // view of the PREPREPARE / NEW_VIEW being delivered (for the proposer monitor)

	// observations for monitors
	Commits   []commitObs
	CbOrder   []string // "c" / "r": commit and new-round callbacks in the order they happened
	Rounds    []roundObs
	Sent      []*Sent // everything ever sent
	newSent   []*Sent // sent during the current event
	nextBlock uint64
	enc       *encoder
}

type commitObs struct {
	Block *FakeBlock
	Proof []byte
}
type roundObs struct {
	H           uint64
	CanBeFirst  bool
	PrevBlockH  uint64
}

type recBlockUtils struct{ n *RealNode }

// during emulates the main loop handling an election trigger while the worker is inside an SPI
// call: CancelOlderThan(height, triggerView+1). Returns the token for the op line ("-" or the view).
func (u *recBlockUtils) during(ctx context.Context) string {
	n := u.n
	if n.CancelDuring == 0 {
		return "-"
	}
	hv := n.St.HeightView()
	v := uint64(hv.View()) + 1 // trigger of the current view
	switch n.CancelDuring {
	case 2:
		v = uint64(hv.View()) // late trigger of the previous view
	case 3:
		v = 1 // late trigger of view 0
	}
	n.CancelDuring = 0
	n.St.Contexts.CancelOlderThan(state.NewHeightView(hv.Height(), primitives.View(v)))
	if uint64(hv.Height()) != n.CancelledH || v > n.CancelledV {
		n.CancelledH, n.CancelledV = uint64(hv.Height()), v
	}
	return fmt.Sprintf("%d", v)
}

// judge is the C15 monitor at the SPI boundary: a proposal is requested for the node's current
// (height, view); the election trigger of that view (cancelAt = view+1) must cancel the context,
// a late trigger of an older view (cancelAt <= view) must not.
func (u *recBlockUtils) judge(ctx context.Context, call string, did string, viewAtCall uint64) {
	n := u.n
	if did == "-" || n.MonViol == nil {
		return
	}
	var at uint64
	fmt.Sscanf(did, "%d", &at)
	if at <= viewAtCall && ctx.Err() != nil {
		n.MonViol("C15", "current-context-cancelled-by-older-event", fmt.Sprintf("node %d: %s for view %d had its context cancelled by CancelOlderThan(view %d)", n.Idx, call, viewAtCall, at))
	}
	if at > viewAtCall && ctx.Err() == nil {
		n.MonViol("C15", "context-not-cancelled-on-election", fmt.Sprintf("node %d: %s for view %d still has a live context after the election trigger of that view was handled (CancelOlderThan view %d)", n.Idx, call, viewAtCall, at))
	}
}

func (u *recBlockUtils) RequestNewBlockProposal(ctx context.Context, blockHeight primitives.BlockHeight, memberId primitives.MemberId, prevBlock interfaces.Block) (interfaces.Block, primitives.BlockHash) {
	n := u.n
	n.addOut(fmt.Sprintf("req:%d", uint64(blockHeight)))
	viewAtCall := uint64(n.St.View())
	did := u.during(ctx)
	u.judge(ctx, "RequestNewBlockProposal", did, viewAtCall)
	n.reqCancelled = ctx.Err() != nil
	n.nextBlock++
	b := &FakeBlock{H: uint64(blockHeight), Id: uint64(n.Idx+1)*1000000 + n.nextBlock}
	n.addSpi(fmt.Sprintf("prop(%s;%s)", n.enc.block(b), did))
	n.Proposed[b.Id] = true
	return b, blockHash(b)
}

func (u *recBlockUtils) ValidateBlockProposal(ctx context.Context, blockHeight primitives.BlockHeight, memberId primitives.MemberId, block interfaces.Block, blockHash_ primitives.BlockHash, prevBlock interfaces.Block) error {
	n := u.n
	n.addOut(fmt.Sprintf("val:%d:%s:%s", uint64(blockHeight), n.enc.block(block), hexid(blockHash_)))
	// C18: the proposer named to the consumer is the leader of the proposal's view: the member at position (view mod committee size)
	if n.CurProposalView != nil && n.MonViol != nil && uint64(blockHeight) == n.CurProposalHeight {
		ms := n.W.Committee(uint64(blockHeight))
		if len(ms) > 0 {
			want := ms[*n.CurProposalView%uint64(len(ms))].Id
			if string(want) != string(memberId) {
				n.MonViol("C18", "proposer-mismatch", fmt.Sprintf("node %d asked its consumer to validate the proposal of view %d naming proposer %x; the leader of that view is %x", n.Idx, *n.CurProposalView, []byte(memberId), []byte(want)))
			}
		}
	}
	did := u.during(ctx)
	ok := false
	fb, isFake := block.(*FakeBlock)
	if isFake && fb != nil {
		ok = fb.H == uint64(blockHeight) && string(blockHash(fb)) == string(blockHash_)
		if ok && n.Verdict != nil {
			ok = n.Verdict(fb)
		}
	}
	n.addSpi(fmt.Sprintf("verd(%s;%s)", b01(ok), did))
	if ok {
		n.Approved[fb.Id] = true
	}
	if !ok {
		return errors.New("consumer rejects the proposal")
	}
	return nil
}

func (u *recBlockUtils) ValidateBlockCommitment(blockHeight primitives.BlockHeight, block interfaces.Block, blockHash_ primitives.BlockHash) bool {
	fb, isFake := block.(*FakeBlock)
	if !isFake || fb == nil {
		return false
	}
	return string(blockHash(fb)) == string(blockHash_)
}

// recStorage wraps the real InMemoryStorage (injected through Config.Storage) and notes successful stores.
type recStorage struct {
	*storage.InMemoryStorage
	n *RealNode
}

func (s *recStorage) StorePreprepare(m *interfaces.PreprepareMessage) bool {
	ok := s.InMemoryStorage.StorePreprepare(m)
	if ok {
		s.n.Stored = append(s.n.Stored, "pp")
	}
	return ok
}
func (s *recStorage) StorePrepare(m *interfaces.PrepareMessage) bool {
	ok := s.InMemoryStorage.StorePrepare(m)
	if ok {
		s.n.Stored = append(s.n.Stored, "p")
	}
	return ok
}
func (s *recStorage) StoreCommit(m *interfaces.CommitMessage) bool {
	ok := s.InMemoryStorage.StoreCommit(m)
	if ok {
		s.n.Stored = append(s.n.Stored, "c")
	}
	return ok
}
func (s *recStorage) StoreViewChange(m *interfaces.ViewChangeMessage) bool {
	ok := s.InMemoryStorage.StoreViewChange(m)
	if ok {
		s.n.Stored = append(s.n.Stored, "vc")
	}
	return ok
}

type recMembership struct{ n *RealNode }

func (m *recMembership) MyMemberId() primitives.MemberId { return m.n.Id }
func (m *recMembership) RequestOrderedCommittee(ctx context.Context, blockHeight primitives.BlockHeight, randomSeed uint64, prevBlockReferenceTime primitives.TimestampSeconds) ([]interfaces.CommitteeMember, error) {
	ms := m.n.W.Committee(uint64(blockHeight))
	xs := make([]string, len(ms))
	for i, c := range ms {
		xs[i] = fmt.Sprintf("M(%s;%d)", hexid(c.Id), uint64(c.Weight))
	}
	m.n.addSpi("cmt(["+strings.Join(xs, ",")+"])")
	return ms, nil
}
func (m *recMembership) RequestCommitteeForBlockProof(ctx context.Context, blockHeight primitives.BlockHeight, prevBlockReferenceTime primitives.TimestampSeconds) ([]interfaces.CommitteeMember, error) {
	return m.n.W.Committee(uint64(blockHeight)), nil
}

type recComm struct{ n *RealNode }

func (c *recComm) SendConsensusMessage(ctx context.Context, recipients []primitives.MemberId, message *interfaces.ConsensusRawMessage) error {
	to := make([][]byte, len(recipients))
	for i, r := range recipients {
		to[i] = append([]byte{}, r...)
	}
	s := &Sent{From: c.n.Id, To: to, Raw: message}
	c.n.Sent = append(c.n.Sent, s)
	c.n.newSent = append(c.n.newSent, s)
	c.n.addOut(fmt.Sprintf("send:%s:%s", c.n.enc.ids(to), c.n.enc.msg(message)))
	if c.n.SendErr != nil && c.n.SendErr() {
		// the transport reports a failure although the message is on its way to (some of) the
		// recipients: what a node has signed and handed over must count as sent
		return errors.New("transport: send failed after partial delivery")
	}
	return nil
}

type recElection struct {
	n *RealNode
	*FakeElection
}

func (e *recElection) RegisterOnElection(blockHeight primitives.BlockHeight, view primitives.View, cb func(blockHeight primitives.BlockHeight, view primitives.View, onElectionCB interfaces.OnElectionCallback)) {
	e.FakeElection.RegisterOnElection(blockHeight, view, cb)
	e.n.addOut(fmt.Sprintf("reg:%d:%d", uint64(blockHeight), uint64(view)))
}
func (e *recElection) Stop() {
	e.FakeElection.Stop()
	e.n.addOut("stop")
}

func (n *RealNode) addOut(s string) {
	n.mu.Lock()
	n.outs = append(n.outs, s)
	n.mu.Unlock()
}
func (n *RealNode) addSpi(s string) {
	n.mu.Lock()
	n.spi = append(n.spi, s)
	n.mu.Unlock()
}

// countingLogger lets the harness see the worker goroutine process a barrier message (a message
// carrying the node's own id, which the height filter drops with a debug line)
type countingLogger struct{ n *RealNode }

func (l *countingLogger) Debug(format string, args ...interface{}) {
	if strings.Contains(format, "IGNORING message I sent") {
		atomic.AddInt64(&l.n.barrierSeen, 1)
	}
}
func (l *countingLogger) Info(format string, args ...interface{})  {}
func (l *countingLogger) Error(format string, args ...interface{}) {}
func (l *countingLogger) ConsensusTrace(format string, fields ...*log.Field) {}

func NewRealNode(w *World, idx int, id []byte, prevProof []byte) *RealNode {
	n := &RealNode{Idx: idx, Id: id, W: w, PrevProof: prevProof, Approved: map[uint64]bool{}, Proposed: map[uint64]bool{}}
	n.Store = &recStorage{storage.NewInMemoryStorage(), n}
	n.KM = &FakeKeyManager{w: w, me: id}
	n.enc = &encoder{km: n.KM}
	n.BU = &recBlockUtils{n}
	n.El = &recElection{n, NewFakeElection()}
	n.Cfg = &interfaces.Config{
		InstanceId:              primitives.InstanceId(w.Inst),
		Communication:           &recComm{n},
		Membership:              &recMembership{n},
		BlockUtils:              n.BU,
		KeyManager:              n.KM,
		OverrideElectionTrigger: n.El,
		Storage:                 n.Store,
	}
	n.St = state.NewState()
	onCommit := func(ctx context.Context, block interfaces.Block, blockProof []byte) error {
		fb, _ := block.(*FakeBlock)
		n.addOut(n.enc.blockProof(block, blockProof))
		n.Commits = append(n.Commits, commitObs{fb, append([]byte{}, blockProof...)})
		n.CbOrder = append(n.CbOrder, "c")
		if n.CommitCbFails {
			n.CommitCbFails = false
			n.addSpi("ccb(0)")
			return errors.New("consumer failed to commit")
		}
		n.addSpi("ccb(1)")
		return nil
	}
	onRound := func(ctx context.Context, newHeight primitives.BlockHeight, prevBlock interfaces.Block, canBeFirstLeader bool) {
		var ph uint64
		if prevBlock != nil {
			ph = uint64(prevBlock.Height())
		}
		n.addOut(fmt.Sprintf("round:%d:%s", uint64(newHeight), b01(canBeFirstLeader)))
		n.Rounds = append(n.Rounds, roundObs{uint64(newHeight), canBeFirstLeader, ph})
		n.CbOrder = append(n.CbOrder, "r")
	}
	n.Worker = leanhelix.NewWorkerLoop(n.St, n.Cfg, logger.NewLhLogger(n.Cfg, n.St), n.El, onCommit, onRound)
	return n
}

// NewRealMainNode builds the same fakes around a full MainLoop (main loop + worker loop goroutines)
// and starts it. Every event is injected through the public API (or the election channel) and the
// harness waits until both loops are idle again before it reads what happened.
func NewRealMainNode(w *World, idx int, id []byte) *RealNode {
	n := NewRealNode(w, idx, id, nil)
	n.Cfg.Logger = &countingLogger{n}
	onCommit := func(ctx context.Context, block interfaces.Block, blockProof []byte) error {
		fb, _ := block.(*FakeBlock)
		n.addOut(n.enc.blockProof(block, blockProof))
		n.mu.Lock()
		n.Commits = append(n.Commits, commitObs{fb, append([]byte{}, blockProof...)})
		n.CbOrder = append(n.CbOrder, "c")
		n.mu.Unlock()
		if n.CommitCbFails {
			n.CommitCbFails = false
			n.addSpi("ccb(0)")
			return errors.New("consumer failed to commit")
		}
		n.addSpi("ccb(1)")
		return nil
	}
	onRound := func(ctx context.Context, newHeight primitives.BlockHeight, prevBlock interfaces.Block, canBeFirstLeader bool) {
		var ph uint64
		if prevBlock != nil {
			ph = uint64(prevBlock.Height())
		}
		n.addOut(fmt.Sprintf("round:%d:%s", uint64(newHeight), b01(canBeFirstLeader)))
		n.mu.Lock()
		n.Rounds = append(n.Rounds, roundObs{uint64(newHeight), canBeFirstLeader, ph})
		n.CbOrder = append(n.CbOrder, "r")
		n.mu.Unlock()
	}
	ml := leanhelix.NewLeanHelix(n.Cfg, onCommit, onRound)
	ctx, cancel := context.WithCancel(context.Background())
	ml.Run(ctx)
	n.Main, n.Cancel = ml, cancel
	n.Worker = ml.VerifWorker()
	n.St = ml.State()
	n.runCtx = ctx
	return n
}

// quiesce waits until both loops are idle: a barrier message (own sender id, dropped by the height
// filter) is processed by the worker goroutine strictly after everything it took before; two
// barriers with empty queues in between mean nothing is in progress any more.
func (n *RealNode) quiesce() {
	barrier := mkBareRaw(1, n.W.Inst, uint64(n.St.Height()), 0, n.Id)
	pass := func() bool {
		want := atomic.LoadInt64(&n.barrierSeen) + 1
		tctx, c := context.WithTimeout(n.runCtx, 2*time.Second)
		n.Main.HandleConsensusMessage(tctx, barrier)
		c()
		deadline := time.Now().Add(2 * time.Second)
		for atomic.LoadInt64(&n.barrierSeen) < want {
			if time.Now().After(deadline) || n.runCtx.Err() != nil {
				return false
			}
			time.Sleep(50 * time.Microsecond)
		}
		return true
	}
	for i := 0; i < 50; i++ {
		if !pass() {
			return
		}
		a, b, c := n.Worker.VerifQueued()
		if a+b+c == 0 {
			if pass() {
				a, b, c = n.Worker.VerifQueued()
				if a+b+c == 0 {
					return
				}
			}
		}
	}
}

func (n *RealNode) mainSnapshot() string {
	n.mu.Lock()
	defer n.mu.Unlock()
	snap := n.Main.State().Contexts.VerifSnapshot()
	return fmt.Sprintf("%s shut=%s down=%s", n.snapshot(), b01(snap.Shutdown), b01(n.Down))
}

func (n *RealNode) runMain(f func()) (spi string, out string) {
	n.mu.Lock()
	n.outs, n.spi, n.newSent, n.Stored = nil, nil, nil, nil
	n.mu.Unlock()
	f()
	if !n.Down {
		n.quiesce()
	} else {
		time.Sleep(5 * time.Millisecond)
	}
	n.mu.Lock()
	spi = strings.Join(n.spi, " ")
	n.mu.Unlock()
	return spi, n.mainSnapshot()
}

// run executes one event on the real node, catching panics, and returns the op-line suffix (SPI
// answers) and the observed output line.
func (n *RealNode) run(f func()) (spi string, out string) {
	n.outs, n.spi, n.newSent, n.Stored = nil, nil, nil, nil
	func() {
		defer func() {
			if r := recover(); r != nil {
				n.Panicked = fmt.Sprint(r)
				n.addOut("panic")
			}
		}()
		f()
	}()
	return strings.Join(n.spi, " "), n.snapshot()
}

func (n *RealNode) snapshot() string {
	view, prep, nv, com, in := "0", "-", "0", "0", "0"
	if t := n.Worker.VerifTerm(); t != nil {
		in = "1"
		view = fmt.Sprintf("%d", uint64(n.St.View()))
		if v, ok := t.VerifPreparedLocally(); ok {
			prep = fmt.Sprintf("%d", uint64(v))
		}
		nv = fmt.Sprintf("%d", uint64(t.VerifLatestViewThatProcessedVCMOrNVM()))
		com = b01(t.VerifCommitted())
	}
	_, entries := n.Worker.VerifFilter().VerifCacheSnapshot()
	var cs []string
	for _, en := range entries {
		if en.Count > 0 {
			cs = append(cs, fmt.Sprintf("%d:%d", uint64(en.Height), en.Count))
		}
	}
	outs := "-"
	if len(n.outs) > 0 {
		outs = strings.Join(n.outs, "|")
	}
	return fmt.Sprintf("h=%d v=%s prep=%s nv=%s com=%s in=%s cache=%s outs=%s", uint64(n.St.Height()), view, prep, nv, com, in, joinOrDash(cs), outs)
}

func (n *RealNode) Deliver(raw *interfaces.ConsensusRawMessage) (string, string) {
	if n.Main != nil {
		return n.runMain(func() {
			tctx, c := context.WithTimeout(n.runCtx, 2*time.Second)
			defer c()
			n.Main.HandleConsensusMessage(tctx, raw)
		})
	}
	return n.run(func() { n.Worker.VerifDeliver(raw) })
}

func (n *RealNode) Election(h, v uint64) (string, string) {
	if n.Main != nil {
		return n.runMain(func() {
			fe := n.El.FakeElection
			trig := &interfaces.ElectionTrigger{
				Hv: state.NewHeightView(primitives.BlockHeight(h), primitives.View(v)),
				MoveToNextLeader: func() {
					if fe.Armed {
						fe.Fire(h, v)
					}
				},
			}
			select {
			case fe.ch <- trig:
			case <-time.After(2 * time.Second):
			case <-n.runCtx.Done():
			}
		})
	}
	return n.run(func() {
		fe := n.El.FakeElection
		trig := &interfaces.ElectionTrigger{
			Hv: state.NewHeightView(primitives.BlockHeight(h), primitives.View(v)),
			MoveToNextLeader: func() {
				if fe.Armed {
					fe.Fire(h, v)
				}
			},
		}
		n.Worker.VerifElection(trig)
	})
}

func (n *RealNode) Update(b *FakeBlock, proof []byte) (string, string) {
	if n.Main != nil {
		return n.runMain(func() {
			tctx, c := context.WithTimeout(n.runCtx, 2*time.Second)
			defer c()
			if b == nil {
				n.Main.UpdateState(tctx, nil, proof)
			} else {
				n.Main.UpdateState(tctx, b, proof)
			}
		})
	}
	return n.run(func() {
		if b == nil {
			n.Worker.VerifUpdateState(nil, proof)
		} else {
			n.Worker.VerifUpdateState(b, proof)
		}
	})
}


// CancelAhead: what the main loop does when it accepts a node sync for block h, before the worker
// has taken the block from the channel: every context older than (h+1, 0) is cancelled.
func (n *RealNode) CancelAhead(h uint64) (string, string) {
	if h+1 > n.AheadUntil {
		n.AheadUntil = h + 1
	}
	return n.run(func() {
		n.St.Contexts.CancelOlderThan(state.NewHeightView(primitives.BlockHeight(h+1), 0))
	})
}

// Shutdown cancels the context given to Run and waits for both loops.
func (n *RealNode) Shutdown() (string, string, time.Duration) {
	var took time.Duration
	spi, out := n.runMain(func() {
		n.Down = true
		t0 := time.Now()
		n.Cancel()
		wctx, c := context.WithTimeout(context.Background(), 3*time.Second)
		n.Main.WaitUntilShutdown(wctx)
		c()
		took = time.Since(t0)
	})
	return spi, out, took
}
