package main

import (
	"flag"
	"fmt"
	"os"
)

type suiteFn func(c *Ctx)

var suites = map[string]suiteFn{}

func main() {
	suite := flag.String("suite", "", "suite name")
	seed := flag.Int64("seed", 1, "PRNG seed")
	tier := flag.String("tier", "quick", "quick|thorough")
	out := flag.String("out", "", "output directory")
	replay := flag.String("replay", "", "replay file (suite specific)")
	flag.Parse()
	fn, ok := suites[*suite]
	if !ok {
		fmt.Fprintf(os.Stderr, "unknown suite %q\n", *suite)
		os.Exit(2)
	}
	c := NewCtx(*suite, *seed, *tier, *out)
	c.Notes["replay"] = *replay
	fn(c)
	c.Close()
	fmt.Printf("suite=%s seed=%d tier=%s ops=%d distinct=%d violations=%d\n", *suite, *seed, *tier, c.N, len(c.Distinct), len(c.Viol))
}
