package main

// Round 8: races between a queued node sync and the worker's other work, on a real MainLoop (both goroutines).
// Monitors only.

import (
	"context"
	"fmt"
	"sync"
	"sync/atomic"
	"time"

	leanhelix "github.com/orbs-network/lean-helix-go"
	"github.com/orbs-network/lean-helix-go/services/interfaces"
	"github.com/orbs-network/lean-helix-go/spec/types/go/primitives"
	"github.com/orbs-network/lean-helix-go/spec/types/go/protocol"
	"github.com/orbs-network/lean-helix-go/state"
)

// blockingMembership answers at once except for one height, for which the call only ends when its context does
type blockingMembership struct {
	*FakeMembership
	silentAt uint64
	waiting  chan struct{}
	once     sync.Once
}

func (m *blockingMembership) RequestOrderedCommittee(ctx context.Context, h primitives.BlockHeight, seed uint64, ref primitives.TimestampSeconds) ([]interfaces.CommitteeMember, error) {
	if uint64(h) == m.silentAt {
		m.once.Do(func() { close(m.waiting) })
		<-ctx.Done()
		return nil, ctx.Err()
	}
	return m.FakeMembership.RequestOrderedCommittee(ctx, h, seed, ref)
}

// staleSyncRaces: (a) a node sync of an old block is handed over while the worker is inside the commit callback of
// height 2: the commit must still be followed by the round of height 3 (C14: a sync below the current height
// changes nothing); (b) the same stale sync is queued together with the election trigger of (2,0) while the
// worker sits in RequestNewBlockProposal: whichever the worker takes first, the node must reach view 1 (C19: an
// armed view's trigger is not lost); (c) the committee contract of height 2 does not answer, messages of height 2
// are queued, a sync to block 2 ends the wait: the queued messages must not make the node act for height 2 with
// the term of height 1 (C17).
func staleSyncRaces(c *Ctx) {
	rounds := 3
	if c.Thorough() {
		rounds = 12
	}
	for it := 0; it < rounds; it++ {
		for _, kind := range []string{"stale-sync-in-commit", "stale-sync-and-election", "superseded-round-messages"} {
			w := NewWorld(100)
			var members []interfaces.CommitteeMember
			for i := 0; i < 4; i++ {
				members = append(members, interfaces.CommitteeMember{Id: memberId(i), Weight: 1})
			}
			w.Committee = func(h uint64) []interfaces.CommitteeMember { return members }
			me := 0
			if kind == "superseded-round-messages" {
				me = 1
			}
			cfg, bu, comm, el := simpleConfig(w, memberId(me))
			var requests int32
			var sawDone int32
			release := make(chan struct{})
			inSpi := make(chan struct{}, 4)
			if kind == "stale-sync-and-election" {
				bu.Gate = func(ctx context.Context, k string) {
					if k != "request" || atomic.AddInt32(&requests, 1) < 2 {
						return
					}
					select {
					case inSpi <- struct{}{}:
					default:
					}
					select {
					case <-ctx.Done():
						atomic.StoreInt32(&sawDone, 1)
					case <-release:
					}
				}
			}
			var judging, verifies int32
			if kind == "superseded-round-messages" {
				// signature verifications made once the node waits for the committee of height 2: only the term of another
				// height can make them (the node never has a committee for height 2)
				cfg.KeyManager.(*FakeKeyManager).VerifyGate = func(sender []byte) {
					if atomic.LoadInt32(&judging) == 1 {
						atomic.AddInt32(&verifies, 1)
					}
				}
			}
			bm := &blockingMembership{FakeMembership: &FakeMembership{w: w, me: memberId(me)}, silentAt: 2, waiting: make(chan struct{})}
			if kind == "superseded-round-messages" {
				cfg.Membership = bm
			}
			var mu sync.Mutex
			var commits, roundHs []uint64
			hold := make(chan struct{})
			inCommit := make(chan struct{}, 4)
			ml := leanhelix.NewLeanHelix(cfg, func(ctx context.Context, block interfaces.Block, blockProof []byte) error {
				mu.Lock()
				commits = append(commits, uint64(block.Height()))
				mu.Unlock()
				if kind == "stale-sync-in-commit" && uint64(block.Height()) == 2 {
					inCommit <- struct{}{}
					select {
					case <-hold:
					case <-time.After(3 * time.Second):
					}
				}
				return nil
			}, func(ctx context.Context, newHeight primitives.BlockHeight, prevBlock interfaces.Block, canBeFirstLeader bool) {
				mu.Lock()
				roundHs = append(roundHs, uint64(newHeight))
				mu.Unlock()
			})
			ctx, cancel := context.WithCancel(context.Background())
			ml.Run(ctx)
			net := &Net{w: w}
			a := &Adversary{net: net, km: &FakeKeyManager{w: w, me: memberId(2)}}
			send := func(raw *interfaces.ConsensusRawMessage) {
				tctx, tc := context.WithTimeout(ctx, time.Second)
				ml.HandleConsensusMessage(tctx, raw)
				tc()
			}
			sync_ := func(b interfaces.Block) error {
				tctx, tc := context.WithTimeout(ctx, time.Second)
				defer tc()
				return ml.UpdateState(tctx, b, nil)
			}
			rounds_ := func() []uint64 { mu.Lock(); defer mu.Unlock(); return append([]uint64{}, roundHs...) }
			hasRound := func(h uint64) bool {
				for _, x := range rounds_() {
					if x == h {
						return true
					}
				}
				return false
			}
			waitFor := func(f func() bool, d time.Duration) bool {
				for t0 := time.Now(); time.Since(t0) < d; time.Sleep(3 * time.Millisecond) {
					if f() {
						return true
					}
				}
				return f()
			}
			// the hash of this node's own proposal for height h (it leads view 0)
			ownProposal := func(h uint64) []byte {
				var hash []byte
				waitFor(func() bool {
					comm.mu.Lock()
					defer comm.mu.Unlock()
					for _, s := range comm.Outbox {
						if pp, ok := interfaces.ToConsensusMessage(s.Raw).(*interfaces.PreprepareMessage); ok && uint64(pp.BlockHeight()) == h {
							hash = pp.Content().SignedHeader().BlockHash()
						}
					}
					return hash != nil
				}, 2*time.Second)
				return hash
			}
			finish := func(h uint64, hash []byte) {
				for _, m := range []int{1, 2} {
					send(a.mkP(memberId(m), protocol.LEAN_HELIX_PREPARE, 100, h, 0, hash))
				}
				for _, m := range []int{1, 2} {
					send(a.mkC(memberId(m), protocol.LEAN_HELIX_COMMIT, 100, h, 0, hash))
				}
			}
			sync_(nil)
			reached := false
			switch kind {
			case "stale-sync-in-commit":
				if h1 := ownProposal(1); h1 != nil {
					finish(1, h1)
					if h2 := ownProposal(2); h2 != nil {
						finish(2, h2)
						select {
						case <-inCommit:
							reached = true
						case <-time.After(2 * time.Second):
						}
					}
				}
				if reached {
					err := sync_(&FakeBlock{H: 1, Id: 1})
					time.Sleep(time.Duration(15+10*it) * time.Millisecond) // the main loop hands the sync to the worker's slot
					close(hold)
					if !waitFor(func() bool { return hasRound(3) }, 1500*time.Millisecond) {
						c.Violation("C14", "stale-sync-swallows-round", fmt.Sprintf("UpdateState(block 1) (returned %v) was handed over while the worker was inside the commit callback of height 2; the callback returned nil, and 1.5 s later the rounds reported are %v (height %d): the commit of height 2 was not followed by the round of height 3", err, rounds_(), uint64(ml.State().Height())), "sync-race "+kind)
					}
				} else {
					close(hold)
				}
			case "stale-sync-and-election":
				if h1 := ownProposal(1); h1 != nil {
					finish(1, h1)
					select {
					case <-inSpi:
						reached = true
					case <-time.After(2 * time.Second):
					}
				}
				if reached {
					err := sync_(&FakeBlock{H: 1, Id: 1})
					time.Sleep(time.Duration(10+10*it) * time.Millisecond)
					trig := &interfaces.ElectionTrigger{Hv: state.NewHeightView(2, 0), MoveToNextLeader: func() { el.Fire(2, 0) }}
					select {
					case el.ch <- trig:
					case <-time.After(time.Second):
					}
					if !waitFor(func() bool { return uint64(ml.State().View()) >= 1 || uint64(ml.State().Height()) > 2 }, 1500*time.Millisecond) {
						c.Violation("C19", "election-trigger-lost", fmt.Sprintf("the election timer of (2,0) fired while a node sync of the old block 1 (UpdateState returned %v) was queued for the worker, which sat in RequestNewBlockProposal of (2,0) (context cancelled: %v); 1.5 s later the node is still at (%d,%d): the trigger was consumed without an election", err, atomic.LoadInt32(&sawDone) == 1, uint64(ml.State().Height()), uint64(ml.State().View())), "sync-race "+kind)
					}
				}
			case "superseded-round-messages":
				// height 1 decided by sync, height 2's committee never answers
				sync_(&FakeBlock{H: 1, Id: 1})
				select {
				case <-bm.waiting:
					reached = true
				case <-time.After(2 * time.Second):
				}
				if reached {
					atomic.StoreInt32(&judging, 1)
					b2 := &FakeBlock{H: 2, Id: 900 + uint64(it)}
					aL := &Adversary{net: net, km: &FakeKeyManager{w: w, me: memberId(0)}}
					send(aL.mkPP(memberId(0), 100, 2, 0, b2))
					send(a.mkP(memberId(2), protocol.LEAN_HELIX_PREPARE, 100, 2, 0, blockHash(b2)))
					sync_(&FakeBlock{H: 2, Id: 2})
					waitFor(func() bool { return hasRound(3) }, 1500*time.Millisecond)
					time.Sleep(30 * time.Millisecond)
					acted := ""
					if n := atomic.LoadInt32(&verifies); n > 0 {
						acted = fmt.Sprintf("%d signature verifications of messages of height 2", n)
					}
					for _, sc := range bu.Calls {
						if sc.Height == 2 {
							acted = fmt.Sprintf("consumer call %s for height 2", sc.Kind)
						}
					}
					comm.mu.Lock()
					for _, s := range comm.Outbox {
						if m := interfaces.ToConsensusMessage(s.Raw); m != nil && uint64(m.BlockHeight()) == 2 {
							acted = fmt.Sprintf("sent %T for height 2", m)
						}
					}
					comm.mu.Unlock()
					if acted != "" {
						c.Violation("C17", "message-reached-another-height", "the committee contract never answered for height 2 (the node never had a committee, hence no term, for it); messages of height 2 were queued and a sync to block 2 ended the wait: "+acted+" — they were judged by the term of height 1", "sync-race "+kind)
					}
				}
			}
			if !reached {
				c.Class("sync-race/" + kind + "/not-reached")
			}
			c.Class("sync-race/" + kind)
			c.Nontrivial(fmt.Sprintf("sync-race/%s/%d/%v", kind, it, rounds_()))
			cancel()
			close(release)
			wctx, wc := context.WithTimeout(context.Background(), 2*time.Second)
			ml.WaitUntilShutdown(wctx)
			wc()
		}
	}
}
