package main

import (
	"fmt"
	"math/big"
	"strings"

	"github.com/orbs-network/lean-helix-go/services/interfaces"
	"github.com/orbs-network/lean-helix-go/services/quorum"
	"github.com/orbs-network/lean-helix-go/spec/types/go/primitives"
)

func init() { suites["quorum"] = suiteQuorum }

// weight vectors whose total is forced into a class
func genWeights(c *Ctx, n int) []uint64 {
	r := c.Rng
	ws := make([]uint64, n)
	kind := r.Intn(9)
	c.Class(fmt.Sprintf("weights/kind%d", kind))
	switch kind {
	case 0: // all equal small
		w := uint64(1 + r.Intn(4))
		for i := range ws {
			ws[i] = w
		}
	case 1: // small random, zeros allowed
		for i := range ws {
			ws[i] = uint64(r.Intn(6))
		}
	case 2: // one heavy
		for i := range ws {
			ws[i] = uint64(1 + r.Intn(5))
		}
		ws[r.Intn(n)] = uint64(r.Intn(1000))
	case 3, 4, 5: // total forced near a boundary (2^53, 2^63, 2^64-1 ...) without overflow
		target := []uint64{1 << 53, 1 << 53, 1 << 63, ^uint64(0) - 40, 1 << 32, 1 << 62, 3 << 52}[r.Intn(7)]
		target += uint64(r.Intn(41))
		rest := target
		for i := 0; i < n-1; i++ {
			var w uint64
			if r.Intn(2) == 0 {
				w = uint64(r.Intn(8))
			} else {
				w = r.Uint64() % (rest/2 + 1)
			}
			if w > rest {
				w = rest
			}
			ws[i] = w
			rest -= w
		}
		ws[n-1] = rest
		r.Shuffle(n, func(i, j int) { ws[i], ws[j] = ws[j], ws[i] })
	case 6: // arbitrary (may overflow: the model wraps exactly like Go)
		for i := range ws {
			ws[i] = randU64(r)
		}
	case 7: // all zero
	default: // medium
		for i := range ws {
			ws[i] = uint64(r.Intn(1 << 20))
		}
	}
	return ws
}

func fmtMembers(ms []interfaces.CommitteeMember) string {
	xs := make([]string, len(ms))
	for i, m := range ms {
		xs[i] = fmt.Sprintf("%s:%d", hexid(m.Id), uint64(m.Weight))
	}
	return joinOrDash(xs)
}
func fmtIds(ids []primitives.MemberId) string {
	xs := make([]string, len(ids))
	for i, m := range ids {
		xs[i] = hexid(m)
	}
	return joinOrDash(xs)
}

func suiteQuorum(c *Ctx) {
	r := c.Rng
	total := 4000
	if c.Thorough() {
		total = 150000
	}
	two64 := new(big.Int).Lsh(big.NewInt(1), 64)
	for it := 0; it < total; it++ {
		n := 1 + r.Intn(9)
		if r.Intn(10) == 0 {
			n = 4 + r.Intn(60)
		}
		ws := genWeights(c, n)
		ms := make([]interfaces.CommitteeMember, n)
		mws := make([]primitives.MemberWeight, n)
		sum := new(big.Int)
		fam := r.Intn(8)
		c.Class(fmt.Sprintf("ids/family%d", fam))
		for i := range ms {
			id := []byte{byte(i + 1), byte(it)}
			switch fam {
			case 4: // 20-byte ids with a common three-byte prefix
				id = make([]byte, 20)
				id[0], id[1], id[2], id[3], id[19] = 0xa7, 1, 2, byte(i+1), byte(it)
			case 5: // ids longer than 20 bytes that share their first 20 bytes
				id = make([]byte, 22+i%3)
				for k := 0; k < 20; k++ {
					id[k] = byte(0x40 + k)
				}
				id[20], id[21] = byte(i+1), byte(it)
			case 6: // ids that differ only by trailing zero bytes
				id = append([]byte{0x77, byte(it)}, make([]byte, i)...)
			case 7: // ids of mixed lengths, one a prefix of the other
				id = append([]byte{0x55}, make([]byte, 0)...)
				for k := 0; k <= i; k++ {
					id = append(id, byte(k+1))
				}
			}
			if r.Intn(50) == 0 {
				id = []byte{} // empty id
			}
			ms[i] = interfaces.CommitteeMember{Id: id, Weight: primitives.MemberWeight(ws[i])}
			mws[i] = primitives.MemberWeight(ws[i])
			sum.Add(sum, new(big.Int).SetUint64(ws[i]))
		}
		fits := sum.Cmp(two64) < 0
		// weights line
		wsS := make([]string, n)
		for i, w := range ws {
			wsS[i] = fmt.Sprintf("%d", w)
		}
		q := quorum.CalcQuorumWeight(mws)
		b := quorum.CalcByzMaxWeight(mws)
		c.Emit("calcq "+strings.Join(wsS, ","), fmt.Sprintf("%d", q))
		c.Emit("calcb "+strings.Join(wsS, ","), fmt.Sprintf("%d", b))
		// monitor (independent oracle, big.Int): f = floor((W-1)/3), Q = W-f when the total fits
		if fits && sum.Sign() > 0 {
			f := new(big.Int).Div(new(big.Int).Sub(sum, big.NewInt(1)), big.NewInt(3))
			Q := new(big.Int).Sub(sum, f)
			if f.Cmp(new(big.Int).SetUint64(uint64(b))) != 0 || Q.Cmp(new(big.Int).SetUint64(uint64(q))) != 0 {
				c.Violation("C06", "thresholds", fmt.Sprintf("W=%s: code f=%d Q=%d, floor((W-1)/3)=%s W-f=%s", sum, b, q, f, Q), "calcq "+strings.Join(wsS, ","))
			}
			cls := "W<2^53"
			if sum.BitLen() > 53 {
				cls = "W>=2^53"
			}
			if sum.BitLen() > 63 {
				cls = "W>=2^63"
			}
			c.Class("total/" + cls)
			c.Nontrivial(fmt.Sprintf("thr/%s/n%d/k%d", cls, n, sum.BitLen()))
		} else if !fits {
			c.Class("total/overflow")
		} else {
			c.Class("total/zero")
		}
		// subsets: include duplicates, outsiders
		for k := 0; k < 3; k++ {
			var A, B []primitives.MemberId
			mk := func() []primitives.MemberId {
				var s []primitives.MemberId
				p := r.Intn(4)
				for i := range ms {
					if r.Intn(4) > p-1 && r.Intn(3) > 0 {
						s = append(s, ms[i].Id)
						if r.Intn(6) == 0 {
							s = append(s, ms[i].Id) // duplicate
						}
					}
				}
				if r.Intn(4) == 0 {
					s = append(s, []byte{0xee, byte(r.Intn(256))}) // outsider
				}
				r.Shuffle(len(s), func(i, j int) { s[i], s[j] = s[j], s[i] })
				return s
			}
			A, B = mk(), mk()
			okA, wA, qA := quorum.IsQuorum(A, ms)
			okB, wB, _ := quorum.IsQuorum(B, ms)
			hA, hw, hb := quorum.HasHonest(A, ms)
			c.Emit(fmt.Sprintf("isq %s %s", fmtIds(A), fmtMembers(ms)), fmt.Sprintf("%s %d %d", b2s(okA), wA, qA))
			c.Emit(fmt.Sprintf("hon %s %s", fmtIds(A), fmtMembers(ms)), fmt.Sprintf("%s %d %d", b2s(hA), hw, hb))
			c.Class("isq/" + b2s(okA))
			c.Nontrivial(fmt.Sprintf("isq/%v/%v/n%d/a%d", okA, hA, n, len(A)))
			if fits && sum.Sign() > 0 {
				// monitors of the property's own predicates on the implementation
				if okA && !hA {
					c.Violation("C06", "quorum-without-honest", "IsQuorum true but HasHonest false", fmt.Sprintf("isq %s %s", fmtIds(A), fmtMembers(ms)))
				}
				if okA && okB {
					inB := map[string]bool{}
					for _, id := range B {
						inB[string(id)] = true
					}
					var I []primitives.MemberId
					for _, id := range A {
						if inB[string(id)] {
							I = append(I, id)
						}
					}
					hI, wI, bI := quorum.HasHonest(I, ms)
					c.Emit(fmt.Sprintf("hon %s %s", fmtIds(I), fmtMembers(ms)), fmt.Sprintf("%s %d %d", b2s(hI), wI, bI))
					c.Nontrivial(fmt.Sprintf("inter/n%d/%d", n, len(I)))
					if !hI {
						c.Violation("C06", "intersection", fmt.Sprintf("two quorums (w=%d,%d) share only weight %d <= f=%d", wA, wB, wI, bI), fmt.Sprintf("isq %s %s | %s", fmtIds(A), fmtMembers(ms), fmtIds(B)))
					}
				}
				// complement of a <= f subset is a quorum
				if wA <= hb {
					inA := map[string]bool{}
					for _, id := range A {
						inA[string(id)] = true
					}
					var C []primitives.MemberId
					for _, m := range ms {
						if !inA[string(m.Id)] {
							C = append(C, m.Id)
						}
					}
					okC, wC, qC := quorum.IsQuorum(C, ms)
					c.Emit(fmt.Sprintf("isq %s %s", fmtIds(C), fmtMembers(ms)), fmt.Sprintf("%s %d %d", b2s(okC), wC, qC))
					c.Nontrivial(fmt.Sprintf("compl/n%d/%d", n, len(C)))
					if !okC {
						c.Violation("C06", "complement", fmt.Sprintf("complement of an f-weight subset (w=%d<=f=%d) has weight %d < Q=%d", wA, hb, wC, qC), fmt.Sprintf("isq %s %s", fmtIds(C), fmtMembers(ms)))
					}
				}
				// duplicates / outsiders add nothing
				A2 := append(append([]primitives.MemberId{}, A...), A...)
				A2 = append(A2, []byte{0xdd})
				_, w2, _ := quorum.IsQuorum(A2, ms)
				if w2 != wA {
					c.Violation("C06", "dup-outsider", fmt.Sprintf("weight %d became %d after adding duplicates and an outsider", wA, w2), fmt.Sprintf("isq %s %s", fmtIds(A2), fmtMembers(ms)))
				}
			}
		}
		// the consumer may reuse its committee buffer between terms: the SAME backing array, other weights.
		// The tests must judge the committee as it is now.
		if it%2 == 0 && fits && n >= 2 && sum.BitLen() < 60 {
			ms[0].Weight, ms[n-1].Weight = ms[n-1].Weight+primitives.MemberWeight(1+it%7)*primitives.MemberWeight(n), ms[0].Weight
			var S []primitives.MemberId
			for i := 0; i < (n+1)/2; i++ {
				S = append(S, ms[i].Id)
			}
			for _, sub := range [][]primitives.MemberId{S, {ms[0].Id}, {ms[n-1].Id}} {
				ok1, w1, q1 := quorum.IsQuorum(sub, ms)
				h1, hw1, hb1 := quorum.HasHonest(sub, ms)
				c.Emit(fmt.Sprintf("isq %s %s", fmtIds(sub), fmtMembers(ms)), fmt.Sprintf("%s %d %d", b2s(ok1), w1, q1))
				c.Emit(fmt.Sprintf("hon %s %s", fmtIds(sub), fmtMembers(ms)), fmt.Sprintf("%s %d %d", b2s(h1), hw1, hb1))
			}
			c.Class("committee-buffer-reused")
		}
	}
	// committees of more than 64 members: duplicates of members at high positions, subsets of the tail only
	big := 12
	if c.Thorough() {
		big = 300
	}
	for it := 0; it < big; it++ {
		n := 65 + r.Intn(70)
		ms := make([]interfaces.CommitteeMember, n)
		for i := range ms {
			ms[i] = interfaces.CommitteeMember{Id: []byte{0x31, byte(i), byte(i >> 8), byte(it)}, Weight: primitives.MemberWeight(1 + r.Intn(3))}
		}
		var subs [][]primitives.MemberId
		hi := ms[64+r.Intn(n-64)].Id
		var rep []primitives.MemberId
		for k := 0; k < 3+r.Intn(2*n); k++ {
			rep = append(rep, hi)
		}
		subs = append(subs, rep)
		var tail []primitives.MemberId
		for i := 60; i < n; i++ {
			tail = append(tail, ms[i].Id)
			if r.Intn(3) == 0 {
				tail = append(tail, ms[i].Id)
			}
		}
		subs = append(subs, tail)
		var head []primitives.MemberId
		for i := 0; i < n-r.Intn(n/3+1); i++ {
			head = append(head, ms[i].Id)
		}
		subs = append(subs, head)
		for _, sub := range subs {
			ok1, w1, q1 := quorum.IsQuorum(sub, ms)
			h1, hw1, hb1 := quorum.HasHonest(sub, ms)
			c.Emit(fmt.Sprintf("isq %s %s", fmtIds(sub), fmtMembers(ms)), fmt.Sprintf("%s %d %d", b2s(ok1), w1, q1))
			c.Emit(fmt.Sprintf("hon %s %s", fmtIds(sub), fmtMembers(ms)), fmt.Sprintf("%s %d %d", b2s(h1), hw1, hb1))
		}
		c.Class("committee-above-64")
	}
}
