package main

import (
	"fmt"
	"math/rand"
	"strings"

	"github.com/orbs-network/lean-helix-go/services/interfaces"
	"github.com/orbs-network/lean-helix-go/spec/types/go/primitives"
	"github.com/orbs-network/lean-helix-go/spec/types/go/protocol"
)

// Net is one scenario: a weighted committee, correct members run as real nodes, Byzantine members
// are played by the adversary (adv.go), a PRNG-driven scheduler decides deliveries, losses,
// duplicates, timeouts, syncs and Byzantine injections.
type Net struct {
	c       *Ctx
	r       *rand.Rand
	w       *World
	members []interfaces.CommitteeMember
	byz     map[string]bool
	nodes   map[string]*RealNode // correct members
	order   []*RealNode
	pool    []*Flight
	seen    []*Sent // everything ever sent by correct nodes (adversary knowledge)
	adv     *Adversary
	steps   int
	label   string
	history []string // op lines of this scenario (the replay)
	mon     *Monitors
	lastAdvOp string
	helped map[string]bool // scenario bookkeeping
	afterDeliver func(n *RealNode, f *Flight) // scenario hook: called after every delivery of traffic that did not come from the adversary
	now      float64         // virtual time (unit: the election timeout of view 0)
	deadline map[int]float64 // per correct node: when its election timer fires
	timely   bool            // stabilised phase: no concurrent cancellations injected
	pending  []pendingSync
}

type Flight struct {
	To   []byte
	From []byte
	Raw  *interfaces.ConsensusRawMessage
	Byz  bool
}

type NetOpts struct {
	MainIdx   []int // members run as full MainLoops (two goroutines, driven through the public API)
	N         int
	Weights   []uint64
	ByzIdx    []int
	Outsiders int
	Inst      uint64
	SendErrs  bool // the transport of every correct node reports a failure for about every fifth send
	IdScheme  int // 0: two-byte ids; 1: 20-byte ids sharing their first three bytes; 2: 24-byte ids sharing their first twenty bytes
}

// idScheme is set by NewNet for the scenario being built (member and outsider ids are derived from it)
var idScheme int

func idBytes(tag byte, i int) []byte {
	switch idScheme {
	case 1:
		b := make([]byte, 20)
		b[0], b[1], b[2] = 0xa7, 0x01, 0x02
		b[3], b[4], b[19] = tag+byte(i), byte(i*7+1), byte(i)
		return b
	case 2:
		b := make([]byte, 24)
		for k := 0; k < 20; k++ {
			b[k] = byte(0x30 + k)
		}
		b[20], b[21] = tag+byte(i), byte(i*7+1)
		return b
	}
	if idScheme == 3 {
		return []byte{tag + byte(15-i), byte(i*7 + 1)} // descending along the committee order
	}
	return []byte{tag + byte(i), byte(i*7 + 1)}
}

func memberId(i int) []byte { return idBytes(0xa0, i) }

func outsiderId(i int) []byte {
	if idScheme == 0 {
		return []byte{0xee, byte(i)}
	}
	return idBytes(0xe0, i)
}

func NewNet(c *Ctx, o NetOpts, label string) *Net {
	if forceIdScheme >= 0 {
		o.IdScheme = forceIdScheme
		label += fmt.Sprintf(" ids=scheme%d", forceIdScheme)
	}
	idScheme = o.IdScheme
	c.Class(fmt.Sprintf("ids/scheme%d", idScheme))
	w := NewWorld(o.Inst)
	net := &Net{c: c, r: c.Rng, w: w, byz: map[string]bool{}, nodes: map[string]*RealNode{}, label: label}
	for i := 0; i < o.N; i++ {
		net.members = append(net.members, interfaces.CommitteeMember{Id: memberId(i), Weight: primitives.MemberWeight(o.Weights[i])})
	}
	ms := net.members
	w.Committee = func(h uint64) []interfaces.CommitteeMember { return ms }
	for _, b := range o.ByzIdx {
		net.byz[string(memberId(b))] = true
	}
	idx := 0
	for i := 0; i < o.N; i++ {
		id := memberId(i)
		if net.byz[string(id)] {
			continue
		}
		var n *RealNode
		isMain := false
		for _, mi := range o.MainIdx {
			if mi == i {
				isMain = true
			}
		}
		if isMain {
			n = NewRealMainNode(w, idx, id)
		} else {
			n = NewRealNode(w, idx, id, nil)
		}
		n.MonViol = func(prop, sig, what string) { c.Violation(prop, sig, what, net.replay()) }
		if o.SendErrs {
			n.SendErr = func() bool { return net.r.Intn(5) == 0 }
		}
		net.nodes[string(id)] = n
		net.order = append(net.order, n)
		if isMain {
			c.Emit(fmt.Sprintf("%d linit %s %d", idx, hexid(id), o.Inst), "init")
		} else {
			c.Emit(fmt.Sprintf("%d init %s %d", idx, hexid(id), o.Inst), "init")
		}
		idx++
	}
	net.mon = NewMonitors(net)
	net.adv = NewAdversary(net)
	for _, n := range net.order {
		n.Verdict = func(b *FakeBlock) bool { return !net.adv.BadBlocks[b.Id] }
	}
	return net
}

// emit one event of a correct node: op line (with SPI answers) and the node's observed reaction
func (net *Net) event(n *RealNode, ev string, f func() (string, string)) {
	spi, out := f()
	if n.Main != nil { // the same event, injected through the public API of a running MainLoop
		switch {
		case strings.HasPrefix(ev, "deliver-nc "):
			ev = "lmsg " + strings.TrimPrefix(ev, "deliver-nc ")
		case strings.HasPrefix(ev, "deliver "):
			ev = "lmsg " + strings.TrimPrefix(ev, "deliver ")
		case strings.HasPrefix(ev, "election "):
			ev = "ltrigger " + strings.TrimPrefix(ev, "election ")
		case ev == "update 0":
			ev = "lsync -"
		case strings.HasPrefix(ev, "update "):
			ev = "lsync " + strings.TrimPrefix(ev, "update ")
		}
	}
	// virtual timers: every election registration of the event (re)arms the node's timer with base*2^view
	for _, o := range n.outs {
		if strings.HasPrefix(o, "reg:") {
			var rh, rv uint64
			if _, err := fmt.Sscanf(o, "reg:%d:%d", &rh, &rv); err == nil {
				if net.deadline == nil {
					net.deadline = map[int]float64{}
				}
				if rv > 60 {
					rv = 60
				}
				net.deadline[n.Idx] = net.now + float64(uint64(1)<<rv)
			}
		}
	}
	line := fmt.Sprintf("%d %s", n.Idx, ev)
	if spi != "" {
		line += " " + spi
	}
	net.c.Emit(line, out)
	net.history = append(net.history, line)
	// C15: a result produced under a cancelled context must not lead to a proposal being broadcast
	if n.reqCancelled {
		afterReq := false
		for _, o := range n.outs {
			if strings.HasPrefix(o, "req:") {
				afterReq = true
			} else if afterReq && strings.HasPrefix(o, "send:") && (strings.Contains(o, ":PP(") || strings.Contains(o, ":NV(")) {
				net.c.Violation("C15", "proposal-broadcast-under-cancelled-context", fmt.Sprintf("node %d broadcast a proposal obtained under a cancelled context", n.Idx), net.replay())
			}
		}
		net.c.Nontrivial("c15/request-cancelled")
	}
	n.reqCancelled = false
	net.steps++
	// route what the node sent
	for _, s := range n.newSent {
		net.seen = append(net.seen, s)
		for _, to := range s.To {
			net.pool = append(net.pool, &Flight{To: to, From: s.From, Raw: s.Raw})
		}
	}
	net.mon.afterEvent(n, ev)
}

func (net *Net) replay() string {
	return net.label + " :: " + strings.Join(net.history, " ;; ")
}

func (net *Net) start() {
	for _, n := range net.order {
		n := n
		net.event(n, "update 0", func() (string, string) { return n.Update(nil, nil) })
	}
}

func (net *Net) deliverFlight(f *Flight) {
	n, ok := net.nodes[string(f.To)]
	if !ok {
		return // recipient is Byzantine or an outsider: the adversary already knows the message
	}
	enc := n.enc.msg(f.Raw)
	if !n.enc.canonical(f.Raw) {
		// same field values, other bytes: correct nodes drop it at the gate (its signatures would not
		// verify again once its fields are re-encoded inside a proof)
		net.c.Nontrivial("deliver/non-canonical")
		net.event(n, "deliver-nc NC:"+enc, func() (string, string) { return n.Deliver(f.Raw) })
		return
	}
	net.mon.beforeDeliver(n, f)
	n.CurProposalView = nil
	switch pm := interfaces.ToConsensusMessage(f.Raw).(type) {
	case *interfaces.PreprepareMessage:
		v := uint64(pm.View())
		n.CurProposalView, n.CurProposalHeight = &v, uint64(pm.BlockHeight())
	case *interfaces.NewViewMessage:
		v := uint64(pm.View())
		n.CurProposalView, n.CurProposalHeight = &v, uint64(pm.BlockHeight())
	}
	net.event(n, "deliver "+enc, func() (string, string) { return n.Deliver(f.Raw) })
	n.CurProposalView = nil
	net.mon.afterDeliver(n, f, enc)
	if net.afterDeliver != nil && !f.Byz {
		net.afterDeliver(n, f)
	}
}

func (net *Net) timeout(n *RealNode, stale bool) {
	if !net.timely && net.r.Intn(12) == 0 { // the node becomes leader by its own timeout while a trigger is handled concurrently
		n.CancelDuring = 1 + net.r.Intn(3)
		defer func() { n.CancelDuring = 0 }()
	}
	hv := n.St.HeightView()
	h, v := uint64(hv.Height()), uint64(hv.View())
	if stale && v > 0 {
		v--
	}
	net.event(n, fmt.Sprintf("election %d %d", h, v), func() (string, string) { return n.Election(h, v) })
}

// syncBlock builds a (block, proof) pair a consumer could pass to UpdateState for height h
func (net *Net) syncProof(h uint64) []byte {
	seed := net.w.SeedFor(h)
	return (&protocol.BlockProofBuilder{
		BlockRef:            &protocol.BlockRefBuilder{MessageType: protocol.LEAN_HELIX_COMMIT, InstanceId: primitives.InstanceId(net.w.Inst), BlockHeight: primitives.BlockHeight(h)},
		RandomSeedSignature: net.w.AggSig(h, seed),
	}).Build().Raw()
}

func (net *Net) sync(n *RealNode, h uint64) {
	b := &FakeBlock{H: h, Id: 900000 + h}
	proof := net.syncProof(h)
	net.event(n, fmt.Sprintf("update %d", h), func() (string, string) { return n.Update(b, proof) })
}

type pendingSync struct {
	n *RealNode
	h uint64
}

type SchedProfile struct {
	PendingSync                                                                    int // per-mille: a sync whose cancellation (main loop) precedes its delivery to the worker by a few events
	Drop, Dup, Timeout, StaleTimeout, Sync, Byz, CancelDuring, CommitFail, Reject int // per-mille
	MaxSteps                                                                       int
	MaxHeight                                                                      uint64
}

func (net *Net) maxHeight() uint64 {
	var m uint64
	for _, n := range net.order {
		if h := uint64(n.St.Height()); h > m {
			m = h
		}
	}
	return m
}

// run drives the scenario until the step budget is used or every correct node passed MaxHeight
func (net *Net) run(p SchedProfile) {
	r := net.r
	net.start()
	for net.steps < p.MaxSteps {
		done := true
		for _, n := range net.order {
			if uint64(n.St.Height()) <= p.MaxHeight {
				done = false
			}
		}
		if done {
			break
		}
		// a sync accepted by the main loop earlier reaches the worker
		if len(net.pending) > 0 && r.Intn(4) == 0 {
			ps := net.pending[0]
			net.pending = net.pending[1:]
			net.sync(ps.n, ps.h)
			continue
		}
		if p.PendingSync > 0 && r.Intn(1000) < p.PendingSync {
			n := net.order[r.Intn(len(net.order))]
			if n.Main == nil {
				h := uint64(n.St.Height()) + uint64(r.Intn(3))
				net.event(n, fmt.Sprintf("cancel %d 0", h+1), func() (string, string) { return n.CancelAhead(h) })
				net.pending = append(net.pending, pendingSync{n, h})
				net.c.Nontrivial("sync/cancelled-ahead")
				continue
			}
		}
		x := r.Intn(1000)
		switch {
		case x < p.Byz && len(net.byz) > 0:
			net.adv.act()
		case x < p.Byz+p.Timeout:
			n := net.order[r.Intn(len(net.order))]
			net.timeout(n, r.Intn(1000) < p.StaleTimeout)
		case x < p.Byz+p.Timeout+p.Sync:
			n := net.order[r.Intn(len(net.order))]
			mh := net.maxHeight()
			var h uint64
			switch r.Intn(3) {
			case 0:
				h = mh // ahead or equal
			case 1:
				h = uint64(n.St.Height()) // exactly the height being decided
			default:
				if mh > 1 {
					h = uint64(r.Intn(int(mh)))
				}
			}
			if h > 0 {
				net.sync(n, h)
			}
		default:
			if len(net.pool) == 0 {
				n := net.order[r.Intn(len(net.order))]
				net.timeout(n, false)
				continue
			}
			i := r.Intn(len(net.pool))
			if r.Intn(3) > 0 && i > 8 { // bias towards older messages: mostly-FIFO networks
				i = r.Intn(8)
			}
			f := net.pool[i]
			y := r.Intn(1000)
			if y < p.Drop {
				net.pool = append(net.pool[:i], net.pool[i+1:]...)
				continue
			}
			if y >= p.Drop+p.Dup {
				net.pool = append(net.pool[:i], net.pool[i+1:]...)
			}
			if n, ok := net.nodes[string(f.To)]; ok {
				if r.Intn(1000) < p.CancelDuring {
					n.CancelDuring = 1 + r.Intn(3)
				}
				if r.Intn(1000) < p.CommitFail {
					n.CommitCbFails = true
				}
			}
			net.deliverFlight(f)
			if n, ok := net.nodes[string(f.To)]; ok {
				n.CancelDuring, n.CommitCbFails = 0, false
			}
		}
	}
	for _, ps := range net.pending {
		net.sync(ps.n, ps.h)
	}
	net.pending = nil
}


func (net *Net) weightOf(ns []*RealNode) (uint64, uint64) {
	var w, total uint64
	for _, m := range net.members {
		total += uint64(m.Weight)
		for _, n := range ns {
			if string(n.Id) == string(m.Id) {
				w += uint64(m.Weight)
			}
		}
	}
	return w, total
}

// stabilise (C05): from the state the scenario has reached, the network turns timely: every message
// in flight among correct members is delivered before any election timer fires; timers fire in the
// order of their deadlines (registration time + 2^view time units); the adversary keeps acting.
// If the correct members deciding the newest height hold quorum weight, a block must be committed
// at that height within a bounded number of timer firings, and every correct member that accepted
// the committed view's proposal commits it.
func (net *Net) stabilise() {
	c := net.c
	H := net.maxHeight()
	if H == 0 {
		return
	}
	net.timely = true
	defer func() { net.timely = false }()
	if net.r.Intn(2) == 0 { // laggards are brought to the newest height by node sync
		for _, n := range net.order {
			if uint64(n.St.Height()) < H {
				net.sync(n, H-1)
			}
		}
	}
	var G []*RealNode
	for _, n := range net.order {
		if uint64(n.St.Height()) == H {
			G = append(G, n)
		}
	}
	wG, total := net.weightOf(G)
	f := (total - 1) / 3
	if wG < total-f {
		c.Class("stabilise/premise-not-met")
		return
	}
	if net.deadline == nil {
		net.deadline = map[int]float64{}
	}
	for _, n := range G {
		if _, ok := net.deadline[n.Idx]; !ok || net.deadline[n.Idx] < net.now {
			v := uint64(n.St.View())
			if v > 60 {
				v = 60
			}
			net.deadline[n.Idx] = net.now + float64(uint64(1)<<v)
		}
	}
	committed := func() *RealNode {
		for _, n := range G {
			for _, cm := range n.Commits {
				if cm.Block != nil && cm.Block.H == H {
					return n
				}
			}
		}
		return nil
	}
	// only traffic of height H matters here; what correct members send for later heights is left in flight
	var later []*Flight
	drain := func() {
		for k := 0; len(net.pool) > 0 && k < 20000; k++ {
			fl := net.pool[0]
			net.pool = net.pool[1:]
			if m := interfaces.ToConsensusMessage(fl.Raw); m != nil && uint64(m.BlockHeight()) > H {
				later = append(later, fl)
				continue
			}
			net.deliverFlight(fl)
			if len(net.byz) > 0 && net.r.Intn(12) == 0 {
				net.adv.act()
			}
		}
	}
	defer func() { net.pool = append(later, net.pool...) }()
	startViews := ""
	for _, n := range G {
		startViews += fmt.Sprintf(" %d:v%d", n.Idx, uint64(n.St.View()))
		if uint64(n.St.View()) > 30 {
			// election timeouts saturate (MaxInt64 ns, C19): above that the doubling that lets members in lower
			// views catch up no longer happens; such views need centuries of real time and are outside the premise
			c.Class(fmt.Sprintf("stabilise/premise-not-met/views-near-saturation/v%d", uint64(n.St.View())/20*20))
			return
		}
	}
	// firings needed in the worst case: every member catches up to the highest view one firing at a time, then at most
	// n further views (Byzantine or refused leaders) in which every member fires once more
	var maxV uint64
	for _, n := range G {
		if v := uint64(n.St.View()); v > maxV {
			maxV = v
		}
	}
	bound := 20 + len(G)*(len(net.members)+3)
	for _, n := range G {
		bound += int(maxV - uint64(n.St.View()))
	}
	firings := 0
	for {
		drain()
		if n := committed(); n != nil {
			drain()
			// every correct member of G that accepted the proposal of the committed view commits it
			var cv uint64
			var blk *FakeBlock
			for _, cm := range n.Commits {
				if cm.Block != nil && cm.Block.H == H {
					blk = cm.Block
					// the view the block was committed in: the block reference of the proof handed to the consumer
					func() {
						defer func() { recover() }()
						cv = uint64(protocol.BlockProofReader(cm.Proof).BlockRef().View())
					}()
				}
			}
			// only a view entered after the network turned timely is judged: messages of earlier views may have been
			// lost before that point, and a member that misses one of them rightly waits for a node sync
			if cv <= maxV {
				c.Class("stabilise/committed-in-a-view-from-before")
				return
			}
			for _, m := range G {
				pp, ok := m.Store.GetPreprepareMessage(primitives.BlockHeight(H), primitives.View(cv))
				if !ok || pp == nil {
					continue
				}
				fb, _ := pp.Block().(*FakeBlock)
				done := false
				for _, cm := range m.Commits {
					if cm.Block != nil && cm.Block.H == H {
						done = true
					}
				}
				if fb != nil && blk != nil && fb.Id == blk.Id && !done && uint64(m.St.Height()) == H {
					c.Violation("C05", "accepted-but-not-committed", fmt.Sprintf("timely network: node %d committed height %d in view %d; node %d accepted that proposal but did not commit it although every message was delivered", n.Idx, H, cv, m.Idx), net.replay())
				}
			}
			c.Class(fmt.Sprintf("stabilise/committed/firings%d", firings/4*4))
			c.Nontrivial(fmt.Sprintf("stabilise/%d/%d/%d", len(G), firings, cv))
			return
		}
		if firings >= bound {
			views := ""
			for _, n := range G {
				views += fmt.Sprintf(" %d:v%d", n.Idx, uint64(n.St.View()))
			}
			c.Violation("C05", "no-commit-after-stabilisation", fmt.Sprintf("timely network, correct members of weight %d/%d deciding height %d: no commit after %d timer firings (views at stabilisation:%s; now:%s)", wG, total, H, firings, startViews, views), net.replay())
			c.Class("stabilise/stuck")
			return
		}
		// nothing in flight: the earliest timer fires
		var first *RealNode
		for _, n := range G {
			if uint64(n.St.Height()) != H {
				continue
			}
			if first == nil || net.deadline[n.Idx] < net.deadline[first.Idx] {
				first = n
			}
		}
		if first == nil {
			return
		}
		if net.deadline[first.Idx] > net.now {
			net.now = net.deadline[first.Idx]
		}
		before := uint64(first.St.View())
		net.timeout(first, false)
		if uint64(first.St.View()) == before { // the trigger was not taken (e.g. cancelled meanwhile): re-arm
			v := before
			if v > 60 {
				v = 60
			}
			net.deadline[first.Idx] = net.now + float64(uint64(1)<<v)
		}
		firings++
	}
}
