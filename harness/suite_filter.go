package main

import (
	"fmt"
	"strings"

	"github.com/orbs-network/lean-helix-go/services/interfaces"
	"github.com/orbs-network/lean-helix-go/services/logger"
	"github.com/orbs-network/lean-helix-go/services/rawmessagesfilter"
	"github.com/orbs-network/lean-helix-go/spec/types/go/primitives"
	"github.com/orbs-network/lean-helix-go/state"
)

func init() { suites["filter"] = suiteFilter }

type filtMsg struct {
	uid, h, inst, sender, script uint64
}

// scripted handler standing for the term of one height: records deliveries, and (like
// HandleCommit -> onCommit -> onNewConsensusRound) may start the next round inside a delivery.
type filtHandler struct {
	height    uint64
	committed bool
	env       *filtEnv
}

type filtEnv struct {
	st       *state.State
	f        *rawmessagesfilter.RawMessageFilter
	scripts  map[uint64]uint64
	bumps    map[uint64]bool
	started  []uint64            // heights whose round was started during the current op
	guar     map[uint64][]uint64 // reference: per future height, the cached messages the statement guarantees, in arrival order
	maxFut   uint64
	deliv    []string // deliveries during the current op
	all      map[uint64]int
	msgs     map[uint64]filtMsg
	c        *Ctx
	opsSoFar *[]string
}

func (h *filtHandler) HandleConsensusMessage(m interfaces.ConsensusMessage) error {
	e := h.env
	uid := uint64(m.View())
	e.deliv = append(e.deliv, fmt.Sprintf("%d:%d", h.height, uid))
	e.all[uid]++
	fm := e.msgs[uid]
	replay := strings.Join(*e.opsSoFar, ";")
	// monitors (C17): only own height / own instance / not own messages; never twice
	if uint64(m.BlockHeight()) != h.height {
		e.c.Violation("C17", "delivered-to-other-height", fmt.Sprintf("message uid=%d of height %d delivered to the term of height %d", uid, uint64(m.BlockHeight()), h.height), replay)
	}
	if fm.inst != 7 || fm.sender == 1 {
		e.c.Violation("C17", "delivered-foreign-or-own", fmt.Sprintf("message uid=%d inst=%d sender=%d delivered", uid, fm.inst, fm.sender), replay)
	}
	if e.all[uid] > 1 {
		e.c.Violation("C17", "delivered-twice", fmt.Sprintf("message uid=%d delivered %d times", uid, e.all[uid]), replay)
	}
	if e.bumps[uid] { // like a NEW_VIEW or an election completing inside the delivery: the view of this height advances
		e.st.SetView(e.st.View() + 1)
	}
	if k := e.scripts[uid]; k > 0 && !h.committed {
		h.committed = true
		e.advance(h.height + k)
	}
	return nil
}

func (e *filtEnv) advance(h uint64) {
	if _, err := e.st.SetHeightAndResetView(primitives.BlockHeight(h)); err != nil {
		return
	}
	e.started = append(e.started, h)
	e.f.ConsumeCacheMessages(&filtHandler{height: h, env: e})
}

// reference bookkeeping for "a message for a future height H is delivered exactly once, in arrival
// order, when the node starts H, provided no accepted-for-caching message for a height above H had
// been received before it"
func (e *filtEnv) noteRecv(m filtMsg, heightBefore uint64) {
	if m.inst != 7 || m.sender == 1 || m.h <= heightBefore {
		return
	}
	if m.h < e.maxFut {
		return // a higher future height was accepted before: this one may be dropped
	}
	if m.h > e.maxFut {
		e.maxFut = m.h
		for h := range e.guar {
			if h < m.h {
				delete(e.guar, h) // earlier-cached lower heights lose the guarantee
			}
		}
	}
	e.guar[m.h] = append(e.guar[m.h], m.uid)
}

func (e *filtEnv) checkStarted(replay string) {
	now := uint64(e.st.Height())
	for _, H := range e.started {
		var got []uint64
		for _, d := range e.deliv {
			var t, u uint64
			fmt.Sscanf(d, "%d:%d", &t, &u)
			if t == H {
				got = append(got, u)
			}
		}
		want := e.guar[H]
		ok := len(got) <= len(want) || len(want) == 0
		for i := 0; ok && i < len(got) && i < len(want); i++ {
			if got[i] != want[i] {
				ok = false
			}
		}
		if len(want) > 0 && !ok {
			e.c.Violation("C17", "cached-out-of-order", fmt.Sprintf("starting height %d delivered %v, the cached messages in arrival order are %v", H, got, want), replay)
		}
		if len(got) < len(want) && now == H {
			e.c.Violation("C17", "cached-message-lost", fmt.Sprintf("height %d was started and is still being decided, but only %v of the cached messages %v were delivered", H, got, want), replay)
		}
		if len(want) > 0 {
			e.c.Nontrivial(fmt.Sprintf("drain/%d/%d", len(want), len(got)))
		}
	}
	for h := range e.guar {
		if h <= now {
			delete(e.guar, h)
		}
	}
	e.started = nil
}

func (e *filtEnv) snapshot() string {
	latest, entries := e.f.VerifCacheSnapshot()
	var cs []string
	for _, en := range entries {
		if en.Count > 0 {
			cs = append(cs, fmt.Sprintf("%d:%d", uint64(en.Height), en.Count))
		}
	}
	return fmt.Sprintf("deliver=%s h=%d latest=%d cache=%s", joinOrDash(e.deliv), uint64(e.st.Height()), uint64(latest), joinOrDash(cs))
}

func suiteFilter(c *Ctx) {
	r := c.Rng
	uid := uint64(0)
	run := func(ops []string) {
		st := state.NewState()
		cfg, _, _, _ := simpleConfig(NewWorld(7), []byte{1})
		f := rawmessagesfilter.NewConsensusMessageFilter(7, []byte{1}, logger.NewLhLogger(cfg, st), st)
		var sofar []string
		e := &filtEnv{st: st, f: f, scripts: map[uint64]uint64{}, bumps: map[uint64]bool{}, guar: map[uint64][]uint64{}, all: map[uint64]int{}, msgs: map[uint64]filtMsg{}, c: c, opsSoFar: &sofar}
		c.Emit("reset 1 7", "reset")
		// per-height arrival order of cached messages, to monitor in-order exactly-once delivery
		for _, op := range ops {
			e.deliv = nil
			var kind string
			var a, b, d, s, vb uint64
			fmt.Sscanf(op, "%s %d %d %d %d %d", &kind, &a, &b, &d, &s, &vb)
			if kind == "recv" {
				uid++
				m := filtMsg{uid: uid, h: a, inst: b, sender: d, script: s}
				e.scripts[uid] = s
				e.bumps[uid] = vb == 1
				e.msgs[uid] = m
				line := fmt.Sprintf("recv %d %d %d %d %d %d", uid, a, b, d, s, vb)
				sofar = append(sofar, line)
				raw := mkBareRaw(int(uid), b, a, uid, []byte{byte(d)})
				hb := uint64(st.Height())
				f.HandleConsensusRawMessage(raw)
				e.noteRecv(m, hb)
				c.Emit(line, e.snapshot())
			} else {
				sofar = append(sofar, op)
				e.advance(a)
				c.Emit(op, e.snapshot())
			}
			e.checkStarted(strings.Join(sofar, ";"))
			if len(e.deliv) > 1 {
				c.Class("op-with-multiple-deliveries")
			}
			nested := false
			for i := 1; i < len(e.deliv); i++ {
				if strings.Split(e.deliv[i], ":")[0] != strings.Split(e.deliv[0], ":")[0] {
					nested = true
				}
			}
			if nested {
				c.Class("op-with-nested-round")
			}
		}
		c.Nontrivial(strings.Join(sofar, ";"))
	}
	// exhaustive short sequences over a small alphabet (heights 1..3, scripts 0/1, one foreign instance, one own message)
	alpha := []string{"advance 1", "advance 2", "advance 3"}
	for h := 1; h <= 3; h++ {
		alpha = append(alpha, fmt.Sprintf("recv %d 7 2 0 0", h), fmt.Sprintf("recv %d 7 3 1 0", h))
	}
	alpha = append(alpha, "recv 2 8 2 0 0", "recv 2 7 1 0 0", "recv 2 7 4 0 1", "recv 1 7 4 0 1")
	maxLen := 4
	if c.Thorough() {
		maxLen = 5
	}
	var rec func(prefix []string, depth int)
	rec = func(prefix []string, depth int) {
		if depth == 0 {
			run(prefix)
			c.Class(fmt.Sprintf("exhaustive/len%d", len(prefix)))
			return
		}
		for _, a := range alpha {
			rec(append(append([]string{}, prefix...), a), depth-1)
		}
	}
	for l := 1; l <= maxLen; l++ {
		rec(nil, l)
	}
	nseq := 400
	if c.Thorough() {
		nseq = 6000
	}
	for i := 0; i < nseq; i++ {
		n := 5 + r.Intn(60)
		ops := make([]string, n)
		cur := uint64(r.Intn(3))
		mode := r.Intn(3)
		for k := range ops {
			if r.Intn(7) == 0 {
				cur += uint64(r.Intn(3))
				ops[k] = fmt.Sprintf("advance %d", cur)
				continue
			}
			var h uint64
			switch mode {
			case 0:
				h = cur + uint64(r.Intn(4))
			case 1:
				h = cur + 1 // everything for the next height: long drains
			default:
				h = uint64(r.Intn(int(cur) + 5))
			}
			if h > 0 && r.Intn(8) == 0 {
				h--
			}
			inst, sender, script := uint64(7), uint64(2+r.Intn(3)), uint64(0)
			if r.Intn(12) == 0 {
				inst = 8
			}
			if r.Intn(12) == 0 {
				sender = 1
			}
			if r.Intn(3) == 0 {
				script = 1
			}
			if r.Intn(20) == 0 {
				script = 2
			}
			vb := 0
			if r.Intn(6) == 0 {
				vb = 1
			}
			ops[k] = fmt.Sprintf("recv %d %d %d %d %d", h, inst, sender, script, vb)
		}
		run(ops)
		c.Class(fmt.Sprintf("random/mode%d", mode))
	}
}
