package main

import (
	"fmt"
	"strings"

	"github.com/orbs-network/lean-helix-go/services/interfaces"
	"github.com/orbs-network/lean-helix-go/services/logger"
	"github.com/orbs-network/lean-helix-go/services/rawmessagesfilter"
	"github.com/orbs-network/lean-helix-go/spec/types/go/primitives"
	"github.com/orbs-network/lean-helix-go/state"
)

func init() { suites["filter"] = suiteFilter }

type filtMsg struct {
	uid, h, inst, sender, script uint64
}

// scripted handler standing for the term of one height: records deliveries, and (like
// HandleCommit -> onCommit -> onNewConsensusRound) may start the next round inside a delivery.
type filtHandler struct {
	height    uint64
	committed bool
	env       *filtEnv
}

type filtEnv struct {
	st       *state.State
	f        *rawmessagesfilter.RawMessageFilter
	scripts  map[uint64]uint64
	deliv    []string // deliveries during the current op
	all      map[uint64]int
	msgs     map[uint64]filtMsg
	c        *Ctx
	opsSoFar *[]string
}

func (h *filtHandler) HandleConsensusMessage(m interfaces.ConsensusMessage) error {
	e := h.env
	uid := uint64(m.View())
	e.deliv = append(e.deliv, fmt.Sprintf("%d:%d", h.height, uid))
	e.all[uid]++
	fm := e.msgs[uid]
	replay := strings.Join(*e.opsSoFar, ";")
	// monitors (C17): only own height / own instance / not own messages; never twice
	if uint64(m.BlockHeight()) != h.height {
		e.c.Violation("C17", "delivered-to-other-height", fmt.Sprintf("message uid=%d of height %d delivered to the term of height %d", uid, uint64(m.BlockHeight()), h.height), replay)
	}
	if fm.inst != 7 || fm.sender == 1 {
		e.c.Violation("C17", "delivered-foreign-or-own", fmt.Sprintf("message uid=%d inst=%d sender=%d delivered", uid, fm.inst, fm.sender), replay)
	}
	if e.all[uid] > 1 {
		e.c.Violation("C17", "delivered-twice", fmt.Sprintf("message uid=%d delivered %d times", uid, e.all[uid]), replay)
	}
	if k := e.scripts[uid]; k > 0 && !h.committed {
		h.committed = true
		e.advance(h.height + k)
	}
	return nil
}

func (e *filtEnv) advance(h uint64) {
	if _, err := e.st.SetHeightAndResetView(primitives.BlockHeight(h)); err != nil {
		return
	}
	e.f.ConsumeCacheMessages(&filtHandler{height: h, env: e})
}

func (e *filtEnv) snapshot() string {
	latest, entries := e.f.VerifCacheSnapshot()
	var cs []string
	for _, en := range entries {
		if en.Count > 0 {
			cs = append(cs, fmt.Sprintf("%d:%d", uint64(en.Height), en.Count))
		}
	}
	return fmt.Sprintf("deliver=%s h=%d latest=%d cache=%s", joinOrDash(e.deliv), uint64(e.st.Height()), uint64(latest), joinOrDash(cs))
}

func suiteFilter(c *Ctx) {
	r := c.Rng
	uid := uint64(0)
	run := func(ops []string) {
		st := state.NewState()
		cfg, _, _, _ := simpleConfig(NewWorld(7), []byte{1})
		f := rawmessagesfilter.NewConsensusMessageFilter(7, []byte{1}, logger.NewLhLogger(cfg, st), st)
		var sofar []string
		e := &filtEnv{st: st, f: f, scripts: map[uint64]uint64{}, all: map[uint64]int{}, msgs: map[uint64]filtMsg{}, c: c, opsSoFar: &sofar}
		c.Emit("reset 1 7", "reset")
		// per-height arrival order of cached messages, to monitor in-order exactly-once delivery
		for _, op := range ops {
			e.deliv = nil
			var kind string
			var a, b, d, s uint64
			fmt.Sscanf(op, "%s %d %d %d %d", &kind, &a, &b, &d, &s)
			if kind == "recv" {
				uid++
				m := filtMsg{uid: uid, h: a, inst: b, sender: d, script: s}
				e.scripts[uid] = s
				e.msgs[uid] = m
				line := fmt.Sprintf("recv %d %d %d %d %d", uid, a, b, d, s)
				sofar = append(sofar, line)
				raw := mkBareRaw(int(uid), b, a, uid, []byte{byte(d)})
				f.HandleConsensusRawMessage(raw)
				c.Emit(line, e.snapshot())
			} else {
				sofar = append(sofar, op)
				e.advance(a)
				c.Emit(op, e.snapshot())
			}
			if len(e.deliv) > 1 {
				c.Class("op-with-multiple-deliveries")
			}
			nested := false
			for i := 1; i < len(e.deliv); i++ {
				if strings.Split(e.deliv[i], ":")[0] != strings.Split(e.deliv[0], ":")[0] {
					nested = true
				}
			}
			if nested {
				c.Class("op-with-nested-round")
			}
		}
		c.Nontrivial(strings.Join(sofar, ";"))
	}
	// exhaustive short sequences over a small alphabet (heights 1..3, scripts 0/1, one foreign instance, one own message)
	alpha := []string{"advance 1", "advance 2", "advance 3"}
	for h := 1; h <= 3; h++ {
		alpha = append(alpha, fmt.Sprintf("recv %d 7 2 0", h), fmt.Sprintf("recv %d 7 3 1", h))
	}
	alpha = append(alpha, "recv 2 8 2 0", "recv 2 7 1 0")
	maxLen := 4
	if c.Thorough() {
		maxLen = 5
	}
	var rec func(prefix []string, depth int)
	rec = func(prefix []string, depth int) {
		if depth == 0 {
			run(prefix)
			c.Class(fmt.Sprintf("exhaustive/len%d", len(prefix)))
			return
		}
		for _, a := range alpha {
			rec(append(append([]string{}, prefix...), a), depth-1)
		}
	}
	for l := 1; l <= maxLen; l++ {
		rec(nil, l)
	}
	nseq := 400
	if c.Thorough() {
		nseq = 6000
	}
	for i := 0; i < nseq; i++ {
		n := 5 + r.Intn(60)
		ops := make([]string, n)
		cur := uint64(r.Intn(3))
		mode := r.Intn(3)
		for k := range ops {
			if r.Intn(7) == 0 {
				cur += uint64(r.Intn(3))
				ops[k] = fmt.Sprintf("advance %d", cur)
				continue
			}
			var h uint64
			switch mode {
			case 0:
				h = cur + uint64(r.Intn(4))
			case 1:
				h = cur + 1 // everything for the next height: long drains
			default:
				h = uint64(r.Intn(int(cur) + 5))
			}
			if h > 0 && r.Intn(8) == 0 {
				h--
			}
			inst, sender, script := uint64(7), uint64(2+r.Intn(3)), uint64(0)
			if r.Intn(12) == 0 {
				inst = 8
			}
			if r.Intn(12) == 0 {
				sender = 1
			}
			if r.Intn(3) == 0 {
				script = 1
			}
			if r.Intn(20) == 0 {
				script = 2
			}
			ops[k] = fmt.Sprintf("recv %d %d %d %d", h, inst, sender, script)
		}
		run(ops)
		c.Class(fmt.Sprintf("random/mode%d", mode))
	}
}
