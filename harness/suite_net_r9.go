package main

// Directed scenarios added in round 9 (appended at the end of the node suite).

import (
	"fmt"

	"github.com/orbs-network/lean-helix-go/spec/types/go/protocol"
)

// heavy-leader: weights (7,1,1,1), Q = 7: the leader of view 0 alone holds quorum weight.  It proposes at the start
// of every height; its round completes when the first PREPARE of another member arrives (the leader counts itself
// as the proposer), not before — and never inside the start of the term.  Two heights are decided; afterwards the
// heavy member is made to time out (it does not lead view 1 and must not elect itself with its own vote).
func scenarioHeavyLeader(c *Ctx) *Net {
	net := NewNet(c, NetOpts{N: 4, Weights: []uint64{7, 1, 1, 1}, Inst: 100}, "heavy-leader weights=[7 1 1 1]")
	net.timely = true
	net.start()
	net.drainExcept("")
	heavy := net.nodes[string(memberId(0))]
	if heavy != nil {
		net.timeout(heavy, false)
		net.drainExcept("")
		net.allTimeout()
		net.drainExcept("")
	}
	return net
}

// heavy-member-times-out: weights (1,1,7,1): member 2 holds quorum weight alone but leads neither view 0 nor
// view 1.  The proposal of view 0 is lost; member 2's timer fires first: it votes for view 1 — towards member 1,
// the leader of view 1 — and must not act as that view's leader itself.  Then the others time out, member 1 is
// elected and the height is decided in view 1.
func scenarioHeavyMemberTimesOut(c *Ctx) *Net {
	net := NewNet(c, NetOpts{N: 4, Weights: []uint64{1, 1, 7, 1}, Inst: 100}, "heavy-member-times-out weights=[1 1 7 1]")
	net.timely = true
	net.start()
	net.pool = nil // the proposal of view 0 is lost
	heavy := net.nodes[string(memberId(2))]
	if heavy == nil {
		c.Class("scenario/heavy-member-times-out/not-reached")
		return net
	}
	net.timeout(heavy, false)
	net.drainExcept("")
	for _, n := range net.order {
		if n != heavy {
			net.timeout(n, false)
		}
	}
	net.drainExcept("")
	return net
}

// newview-send-fails-then-late-vote: the proposal of view 0 is lost; members 1 (the leader of view 1), 0 and 2 time
// out; the two votes reach member 1, whose transport reports a failure for every send (the messages still go out):
// it is elected and broadcasts its NEW_VIEW.  Then member 3 times out and its late vote reaches member 1: a leader
// is elected once per view — no second NEW_VIEW (with another block) may follow.  The view is then played out.
func scenarioNewViewSendFailsThenLateVote(c *Ctx) *Net {
	net := NewNet(c, NetOpts{N: 4, Weights: []uint64{1, 1, 1, 1}, Inst: 100}, "newview-send-fails-then-late-vote n=4")
	net.timely = true
	net.start()
	net.pool = nil // the proposal of view 0 is lost
	m := func(i int) *RealNode { return net.nodes[string(memberId(i))] }
	if m(0) == nil || m(1) == nil || m(2) == nil || m(3) == nil {
		c.Class("scenario/newview-send-fails-then-late-vote/not-reached")
		return net
	}
	m(1).SendErr = func() bool { return true }
	net.timeout(m(1), false)
	net.timeout(m(0), false)
	net.timeout(m(2), false)
	isTo1 := func(f *Flight) bool { return typOf(f) == "*interfaces.ViewChangeMessage" && string(f.To) == string(m(1).Id) }
	net.deliverWhere(isTo1)
	var held []*Flight
	held = append(held, net.pool...) // the NEW_VIEW (and whatever else is in flight) waits
	net.pool = nil
	net.timeout(m(3), false)
	net.deliverWhere(isTo1) // the late vote
	net.pool = append(held, net.pool...)
	net.drainExcept("")
	return net
}

// two-locks-honest-leader: like two-locks-high (X prepared on the wire in view 1, Y in view 2, both proposed by
// Byzantine leaders by the book), but the leader of view 3 is CORRECT: the Byzantine members 1 and 2 send it votes
// carrying the genuine certificates of Y and of X (with their blocks), the correct members' votes carry none.
// The elected leader must re-propose Y, the block of the highest certificate among the votes it counts — in
// whatever order its log hands them out (run several times: the log's order is not ours).
func scenarioTwoLocksHonestLeader(c *Ctx, k int) *Net {
	net := NewNet(c, NetOpts{N: 10, Weights: []uint64{1, 1, 1, 1, 1, 1, 1, 1, 1, 1}, ByzIdx: []int{1, 2, 4}, Inst: 100}, fmt.Sprintf("two-locks-honest-leader n=10 byz=[1 2 4] #%d", k))
	net.timely = true
	net.start()
	a := net.adv
	inst, h := uint64(100), uint64(1)
	net.pool = nil // view 0 is lost
	for v := uint64(1); v <= 2; v++ {
		net.allTimeout()
		net.pool = nil
		blk := a.newBlock(h, false)
		votes := a.genuineVotes(h, v, true, nil)
		pp := a.ppContent(memberId(int(v)), protocol.LEAN_HELIX_PREPREPARE, inst, h, v, blockHash(blk))
		a.toAll(a.mkNV(memberId(int(v)), protocol.LEAN_HELIX_NEW_VIEW, inst, h, v, votes, pp, blk), "nv-by-the-book")
		net.pool = nil // the correct members' PREPAREs are on the wire (seen) but reach nobody
	}
	net.allTimeout()
	held := net.pool // the correct members' votes for view 3
	net.pool = nil
	proofX, blkX := a.genuineProof(h, 1)
	proofY, blkY := a.genuineProof(h, 2)
	ld3 := net.nodes[string(memberId(3))]
	if proofX == nil || proofY == nil || blkX == nil || blkY == nil || ld3 == nil {
		c.Class("scenario/two-locks-honest-leader/not-reached")
		net.pool = held
		net.drainExcept("")
		return net
	}
	first, second := 2, 1
	if k%2 == 1 {
		first, second = 1, 2
	}
	vote := func(m int) {
		if m == 2 {
			a.inject(ld3, a.mkVC(a.vcContent(memberId(2), protocol.LEAN_HELIX_VIEW_CHANGE, inst, h, 3, proofX), blkX), "vc-genuine-lower-certificate")
		} else {
			a.inject(ld3, a.mkVC(a.vcContent(memberId(1), protocol.LEAN_HELIX_VIEW_CHANGE, inst, h, 3, proofY), blkY), "vc-genuine-higher-certificate")
		}
	}
	vote(first)
	if len(held) > 0 {
		net.deliverFlight(held[0])
		held = held[1:]
	}
	vote(second)
	net.pool = append(held, net.pool...)
	net.deliverWhere(func(f *Flight) bool { return typOf(f) == "*interfaces.ViewChangeMessage" })
	net.drainExcept("")
	return net
}
