package main

// Directed scenarios added in round 5.  They are appended at the END of the node suite so that the
// pseudo-random phases before them keep their streams.

import (
	"github.com/orbs-network/lean-helix-go/services/interfaces"
	"github.com/orbs-network/lean-helix-go/spec/types/go/protocol"
)

// newview-sweep-no-lock: the NEW_VIEW checks in a state WITHOUT a lock but WITH a stored proposal of a lower
// view.  The correct leader's proposal of view 0 reaches everybody (it is stored, PREPAREs are lost, nobody is
// prepared); everybody times out; the Byzantine leader of view 1 sends proof-less NEW_VIEWs that are by the book
// except for the relation between the embedded proposal's hash and the attached block:
//   - the hash of the STORED view-0 proposal with another block body attached;
//   - a fresh hash with a block that does not commit to it;
//   - no block at all;
// and finally one by the book re-proposing the very block of view 0.
func scenarioNewViewSweepNoLock(c *Ctx) *Net {
	net := NewNet(c, NetOpts{N: 4, Weights: []uint64{1, 1, 1, 1}, ByzIdx: []int{1}, Inst: 100}, "newview-sweep-no-lock n=4 byz=[1]")
	net.timely = true
	net.start()
	a := net.adv
	inst, h, nv := uint64(100), uint64(1), uint64(1)
	byz := memberId(1)
	var hash0 []byte
	var blk0 *FakeBlock
	for _, f := range net.pool {
		if pp, ok := interfaces.ToConsensusMessage(f.Raw).(*interfaces.PreprepareMessage); ok {
			hash0 = pp.Content().SignedHeader().BlockHash()
			blk0, _ = pp.Block().(*FakeBlock)
		}
	}
	net.deliverWhere(func(f *Flight) bool { return typOf(f) == "*interfaces.PreprepareMessage" })
	net.pool = nil // PREPAREs are lost: nobody becomes prepared
	net.allTimeout()
	net.pool = nil
	votes := func() []*protocol.ViewChangeMessageContentBuilder { return a.genuineVotes(h, nv, true, nil) }
	if hash0 == nil || blk0 == nil || len(votes()) < 3 {
		c.Class("scenario/newview-sweep-no-lock/not-reached")
		return net
	}
	send := func(name string, hash []byte, b *FakeBlock) {
		pp := a.ppContent(byz, protocol.LEAN_HELIX_PREPREPARE, inst, h, nv, hash)
		a.toAll(a.mkNV(byz, protocol.LEAN_HELIX_NEW_VIEW, inst, h, nv, votes(), pp, b), "sweep-nv-nolock-"+name)
	}
	other := a.newBlock(h, false)
	send("stored-hash-other-block", hash0, other)
	fresh := a.newBlock(h, false)
	send("fresh-hash-other-block", blockHash(fresh), other)
	send("stored-hash-no-block", hash0, nil)
	send("fresh-hash-no-block", blockHash(fresh), nil)
	send("stored-hash-its-block", hash0, blk0)
	net.drainExcept("")
	return net
}

// minority-prepared-overridden (honest members only): weights (1,2,3,4), Q = 7.  In view 0 only member 2
// (weight 3) sees the PREPAREs and becomes prepared on A; it times out first (its vote, carrying the proof of
// view 0, is delayed beyond the election).  Members 0, 1, 3 time out; leader 1 is elected by their proof-less
// votes and proposes a fresh block B.  Member 2 must follow that NEW_VIEW (a NEW_VIEW is the legitimate way out
// of a lock that no quorum shares).  Everybody becomes prepared on B in view 1, the COMMITs are lost, everybody
// times out again: every vote for view 2 — member 2's included — must carry the proof of view 1, and the
// leader of view 2 (member 2 itself) must re-propose B.
func scenarioMinorityPreparedOverridden(c *Ctx) *Net {
	net := NewNet(c, NetOpts{N: 4, Weights: []uint64{1, 2, 3, 4}, Inst: 100}, "minority-prepared-overridden weights=[1 2 3 4]")
	net.timely = true
	net.start()
	m2 := net.nodes[string(memberId(2))]
	net.deliverWhere(func(f *Flight) bool { return typOf(f) == "*interfaces.PreprepareMessage" })
	net.deliverWhere(func(f *Flight) bool { return typOf(f) == "*interfaces.PrepareMessage" && string(f.To) == string(m2.Id) })
	net.pool = nil // the other PREPAREs and member 2's COMMIT are lost
	net.timeout(m2, false)
	var late []*Flight
	late = append(late, net.pool...) // member 2's vote (with the proof of view 0) is delayed
	net.pool = nil
	for _, n := range net.order {
		if n != m2 {
			net.timeout(n, false)
		}
	}
	net.deliverWhere(func(f *Flight) bool { return typOf(f) == "*interfaces.ViewChangeMessage" })
	net.deliverWhere(func(f *Flight) bool { return typOf(f) == "*interfaces.NewViewMessage" })
	for _, f := range late {
		net.deliverFlight(f)
	}
	net.deliverWhere(func(f *Flight) bool { return typOf(f) == "*interfaces.PrepareMessage" })
	net.pool = nil // COMMITs of view 1 are lost
	net.allTimeout()
	net.deliverWhere(func(f *Flight) bool { return typOf(f) == "*interfaces.ViewChangeMessage" })
	net.drainExcept("")
	return net
}
