package main

import (
	"context"
	"encoding/binary"
	"fmt"
	"math/rand"
	"time"

	leanhelix "github.com/orbs-network/lean-helix-go"
	"github.com/orbs-network/lean-helix-go/services/interfaces"
	"github.com/orbs-network/lean-helix-go/spec/types/go/primitives"
	"github.com/orbs-network/lean-helix-go/spec/types/go/protocol"
)

func init() { suites["bytes"] = suiteBytes }

// mutateBytes applies one structural mutation to a serialized message
func mutateBytes(r *rand.Rand, b []byte) ([]byte, string) {
	out := append([]byte{}, b...)
	switch k := r.Intn(9); k {
	case 0: // truncate
		if len(out) > 0 {
			out = out[:r.Intn(len(out))]
		}
		return out, "truncate"
	case 1: // flip a bit
		if len(out) > 0 {
			out[r.Intn(len(out))] ^= 1 << uint(r.Intn(8))
		}
		return out, "bitflip"
	case 2, 3: // overwrite an aligned 4-byte word (size fields live there) with a boundary value
		if len(out) >= 4 {
			off := (r.Intn(len(out)-3) / 4) * 4
			vals := []uint32{0xfffffffc, 0xffffffff, 0xfffffff8, 0x80000000, 0x7fffffff, uint32(len(out)), uint32(len(out)) + 1, uint32(len(out)) - uint32(off), 0xfffffff0 + uint32(r.Intn(16)), uint32(r.Intn(64))}
			binary.LittleEndian.PutUint32(out[off:], vals[r.Intn(len(vals))])
		}
		return out, "sizeword"
	case 4: // append garbage
		n := 1 + r.Intn(16)
		for i := 0; i < n; i++ {
			out = append(out, byte(r.Intn(256)))
		}
		return out, "append"
	case 5: // random bytes
		out = make([]byte, r.Intn(96))
		r.Read(out)
		return out, "random"
	case 6: // overwrite a 2-byte word (union tag / message type)
		if len(out) >= 2 {
			off := (r.Intn(len(out)-1) / 2) * 2
			binary.LittleEndian.PutUint16(out[off:], uint16(r.Intn(9)))
		}
		return out, "tagword"
	case 7: // zero a range
		if len(out) > 0 {
			a := r.Intn(len(out))
			for i := a; i < len(out) && i < a+8; i++ {
				out[i] = 0
			}
		}
		return out, "zero"
	default: // empty / tiny
		return out[:min(len(out), r.Intn(5))], "tiny"
	}
}

func min(a, b int) int {
	if a < b {
		return a
	}
	return b
}

func suiteBytes(c *Ctx) {
	r := c.Rng
	w := NewWorld(100)
	var members []interfaces.CommitteeMember
	for i := 0; i < 4; i++ {
		members = append(members, interfaces.CommitteeMember{Id: memberId(i), Weight: 1})
	}
	w.Committee = func(h uint64) []interfaces.CommitteeMember { return members }
	net := &Net{c: c, r: r, w: w, members: members, byz: map[string]bool{string(memberId(1)): true}, nodes: map[string]*RealNode{}}
	adv := NewAdversary(net)
	net.adv = adv
	// a pool of well-formed messages of every type (built with the real builders, arbitrary field values)
	var seeds [][]byte
	big := []uint64{0, 1, 2, 1 << 31, 1 << 32, 1 << 63, ^uint64(0), 7}
	for i := 0; i < 40; i++ {
		h, v := big[r.Intn(len(big))], big[r.Intn(len(big))]
		key := memberId(r.Intn(4))
		if r.Intn(8) == 0 {
			key = []byte{}
		}
		blk := &FakeBlock{H: h, Id: uint64(i)}
		pp := adv.ppContent(key, protocol.LEAN_HELIX_PREPREPARE, 100, h, v, blockHash(blk))
		proof := &protocol.PreparedProofBuilder{
			PreprepareBlockRef: adv.refB(protocol.LEAN_HELIX_PREPREPARE, 100, h, v, blockHash(blk)), PreprepareSender: adv.senderB(key, h, []byte{1}),
			PrepareBlockRef: adv.refB(protocol.LEAN_HELIX_PREPARE, 100, h, v, blockHash(blk)), PrepareSenders: []*protocol.SenderSignatureBuilder{adv.senderB(memberId(2), h, []byte{2}), adv.senderB(memberId(3), h, []byte{3})}}
		var pr *protocol.PreparedProofBuilder
		if r.Intn(2) == 0 {
			pr = proof
		}
		vc := adv.vcContent(key, protocol.LEAN_HELIX_VIEW_CHANGE, 100, h, v+1, pr)
		msgs := []*interfaces.ConsensusRawMessage{
			adv.mkPP(key, 100, h, v, blk),
			adv.mkP(key, protocol.LEAN_HELIX_PREPARE, 100, h, v, blockHash(blk)),
			adv.mkC(key, protocol.LEAN_HELIX_COMMIT, 100, h, v, blockHash(blk)),
			adv.mkVC(vc, blk),
			adv.mkNV(key, protocol.LEAN_HELIX_NEW_VIEW, 100, h, v+1, []*protocol.ViewChangeMessageContentBuilder{vc, adv.vcContent(memberId(2), protocol.LEAN_HELIX_VIEW_CHANGE, 100, h, v+1, nil)}, pp, blk),
		}
		for _, m := range msgs {
			seeds = append(seeds, m.Content)
		}
	}
	// block proofs
	var proofSeeds [][]byte
	for i := 0; i < 10; i++ {
		var nodes []*protocol.SenderSignatureBuilder
		for k := 0; k < r.Intn(5); k++ {
			nodes = append(nodes, &protocol.SenderSignatureBuilder{MemberId: memberId(k), Signature: []byte{byte(k), 9, 9}})
		}
		proofSeeds = append(proofSeeds, (&protocol.BlockProofBuilder{BlockRef: adv.refB(protocol.LEAN_HELIX_COMMIT, 100, uint64(i), 0, []byte{1, 2, 3}), Nodes: nodes, RandomSeedSignature: []byte{5, 5, 5}}).Build().Raw())
	}

	// a real node in its height-1 term (receives everything through the worker path)
	node := NewRealNode(w, 0, memberId(0), nil)
	c.Emit(fmt.Sprintf("0 init %s %d", hexid(node.Id), w.Inst), "init")
	{
		spi, out := node.Update(nil, nil)
		c.Emit("0 update 0 "+spi, out)
	}
	// a second real node that is alive but NOT a member of the committee of its height: its term has no
	// in-committee part, everything addressed to it must be ignored
	outNode := NewRealNode(w, 1, []byte{0xb7, 0x01}, nil)
	c.Emit(fmt.Sprintf("1 init %s %d", hexid(outNode.Id), w.Inst), "init")
	{
		spi, out := outNode.Update(nil, nil)
		c.Emit("1 update 0 "+spi, out)
	}
	// a real MainLoop running its two goroutines (receives everything through the public API)
	cfg, _, _, _ := simpleConfig(w, memberId(3))
	commits := 0
	ml := leanhelix.NewLeanHelix(cfg, func(ctx context.Context, block interfaces.Block, blockProof []byte) error { commits++; return nil }, nil)
	ctx, cancel := context.WithCancel(context.Background())
	defer cancel()
	ml.Run(ctx)
	ml.UpdateState(ctx, nil, nil)
	time.Sleep(20 * time.Millisecond)

	mlDead := false
	total := 3000
	if c.Thorough() {
		total = 60000
	}
	classify := func(f func()) (out string) {
		defer func() {
			if rec := recover(); rec != nil {
				out = "panic"
			}
		}()
		f()
		return "ok"
	}
	for i := 0; i < total; i++ {
		var content []byte
		mut := "asis"
		base := seeds[r.Intn(len(seeds))]
		content = base
		nm := r.Intn(3)
		for k := 0; k < nm; k++ {
			content, mut = mutateBytes(r, content)
		}
		raw := &interfaces.ConsensusRawMessage{Content: content}
		if r.Intn(2) == 0 {
			raw.Block = &FakeBlock{H: 1, Id: 5}
		}
		// (a) is the content readable at all (the gate both loops apply)
		o1 := "readable"
		if _, err := interfaces.ParseConsensusMessage(raw); err != nil {
			o1 = "unreadable"
		}
		// (b) the worker path of a real node
		var o2 string
		encOK := true
		var enc string
		if o1 == "readable" {
			func() {
				defer func() {
					if rec := recover(); rec != nil {
						encOK = false
					}
				}()
				enc = node.enc.msg(raw)
			}()
			if !encOK {
				c.Violation("C12", "gate-accepts-unreadable-field", fmt.Sprintf("content (%d bytes, mutation %s) passes the readability gate although one of its fields cannot be read", len(content), mut), fmt.Sprintf("content=%x", content))
			}
		}
		if o1 == "readable" && encOK {
			spi, out := node.Deliver(raw)
			line := "0 deliver " + enc
			if !node.enc.canonical(raw) {
				line = "0 deliver-nc NC:" + enc
			}
			if spi != "" {
				line += " " + spi
			}
			c.Emit(line, out)
			o2 = "ok"
			if node.Panicked != "" {
				o2 = "panic"
			}
			// the same message to the node outside the committee
			spi2, out2 := outNode.Deliver(raw)
			line2 := "1 deliver " + outNode.enc.msg(raw)
			if !outNode.enc.canonical(raw) {
				line2 = "1 deliver-nc NC:" + outNode.enc.msg(raw)
			}
			if spi2 != "" {
				line2 += " " + spi2
			}
			c.Emit(line2, out2)
			if outNode.Panicked != "" {
				c.Violation("C12", "handler-panic", fmt.Sprintf("delivering %d content bytes (mutation %s) to a node outside the committee panicked: %s", len(content), mut, outNode.Panicked), fmt.Sprintf("content=%x", content))
				outNode.Panicked = ""
			}
		} else if o1 == "readable" {
			_, out := node.Deliver(raw)
			c.Emit("0 garbage-accepted-by-gate", out)
			o2 = "ok"
			if node.Panicked != "" {
				o2 = "panic"
			}
		} else {
			_, out := node.Deliver(raw)
			c.Emit("0 garbage", out)
			o2 = "ok"
			if node.Panicked != "" {
				o2 = "panic"
			}
		}
		c.Class("msg/" + mut + "/" + o1 + "/" + o2)
		c.Nontrivial(fmt.Sprintf("msg/%s/%d/%s%s", mut, len(content)/8, o1, o2))
		// (c) the public API of a running MainLoop
		if !mlDead {
			tctx, tcancel := context.WithTimeout(ctx, 300*time.Millisecond)
			ml.HandleConsensusMessage(tctx, raw)
			if tctx.Err() != nil {
				mlDead = true
				c.Violation("C12", "mainloop-stopped-reading", fmt.Sprintf("HandleConsensusMessage blocked: the main loop stopped taking messages after %d inputs (last: %d content bytes, mutation %s)", i, len(content), mut), fmt.Sprintf("content=%x", content))
			}
			tcancel()
		}
		if o2 == "panic" {
			c.Violation("C12", "handler-panic", fmt.Sprintf("delivering %d content bytes (mutation %s) panicked: %s", len(content), mut, node.Panicked), fmt.Sprintf("content=%x", content))
		}
		// block proofs
		pb := proofSeeds[r.Intn(len(proofSeeds))]
		pm := "asis"
		for k := 0; k < r.Intn(3); k++ {
			pb, pm = mutateBytes(r, pb)
		}
		o3 := classify(func() { leanhelix.GetMemberIdsFromBlockProof(pb) })
		prevPb := []byte(nil)
		if r.Intn(2) == 0 { // the previous proof is received bytes too
			prevPb = proofSeeds[r.Intn(len(proofSeeds))]
			for k := 0; k < 1+r.Intn(2); k++ {
				prevPb, _ = mutateBytes(r, prevPb)
			}
		}
		o4 := classify(func() {
			node.Worker.ValidateBlockConsensus(context.Background(), &FakeBlock{H: uint64(r.Intn(10))}, pb, nil, prevPb, r.Intn(2) == 0)
		})
		// a fully valid proof with a damaged previous proof: the seed check reads the previous proof
		if i%4 == 0 {
			o5 := classify(func() {
				h := uint64(1 + r.Intn(3))
				blk := &FakeBlock{H: h, Id: 77}
				ref := &protocol.BlockRefBuilder{MessageType: protocol.LEAN_HELIX_COMMIT, InstanceId: 100, BlockHeight: primitives.BlockHeight(h), BlockHash: blockHash(blk)}
				var nodes []*protocol.SenderSignatureBuilder
				for k := 0; k < 4; k++ {
					nodes = append(nodes, &protocol.SenderSignatureBuilder{MemberId: memberId(k), Signature: node.KM.SignAs(memberId(k), h, ref.Build().Raw())})
				}
				good := (&protocol.BlockProofBuilder{BlockRef: ref, Nodes: nodes, RandomSeedSignature: []byte{1, 2, 3}}).Build().Raw()
				dmg, _ := mutateBytes(r, proofSeeds[r.Intn(len(proofSeeds))])
				dmg, _ = mutateBytes(r, dmg)
				node.Worker.ValidateBlockConsensus(context.Background(), blk, good, &FakeBlock{H: h - 1}, dmg, r.Intn(2) == 0)
			})
			if o5 == "panic" {
				o4 = "panic"
			}
		}
		c.Class("proof/" + pm + "/" + o3 + "/" + o4)
		if o3 == "panic" || o4 == "panic" {
			c.Violation("C12", "blockproof-panic", fmt.Sprintf("GetMemberIdsFromBlockProof/ValidateBlockConsensus panicked on %d proof bytes (mutation %s)", len(pb), pm), fmt.Sprintf("proof=%x", pb))
		}
	}
	// after all that, the running node must still be alive: contexts are issued, and a sync takes effect
	time.Sleep(50 * time.Millisecond)
	if _, err := ml.State().Contexts.For(ml.State().HeightView()); err != nil {
		c.Violation("C12", "node-disabled", fmt.Sprintf("after the byte stream the running node cannot obtain contexts any more: %v", err), "suite bytes")
	}
	before := uint64(ml.State().Height())
	uctx, ucancel := context.WithTimeout(ctx, 500*time.Millisecond)
	defer ucancel()
	ml.UpdateState(uctx, &FakeBlock{H: before + 3, Id: 1}, net.syncProof(before+3))
	time.Sleep(80 * time.Millisecond)
	if uint64(ml.State().Height()) != before+4 {
		c.Violation("C12", "node-wedged", fmt.Sprintf("after the byte stream UpdateState(%d) did not take effect: height is %d", before+3, uint64(ml.State().Height())), "suite bytes")
	}
	_ = primitives.BlockHeight(0)
	hugeViewRound(c, w, adv)
}
