package main

import (
	"context"
	"fmt"
	"time"

	"github.com/orbs-network/lean-helix-go/services/interfaces"
	"github.com/orbs-network/lean-helix-go/services/randomseed"
	"github.com/orbs-network/lean-helix-go/spec/types/go/primitives"
	"github.com/orbs-network/lean-helix-go/spec/types/go/protocol"
)

// blockProofOverlap (C02): ValidateBlockConsensus is called by the host's own goroutines, so two validations may
// overlap on one node.  A forged proof (ONE valid signature, of a member of weight <= f, the seed signature
// copied) is being validated — the call is held inside the verification of its only signer — while a genuine
// proof for another block of the same height is validated from start to end; then the forged call goes on.
// It must still be refused: nothing one call has verified may count for the other.  Monitor only.
func blockProofOverlap(c *Ctx) {
	rounds := 3
	if c.Thorough() {
		rounds = 30
	}
	for it := 0; it < rounds; it++ {
		for _, soft := range []bool{false, true} {
			inst := uint64(100)
			w := NewWorld(inst)
			n := 4 + it%3
			var members []interfaces.CommitteeMember
			for i := 0; i < n; i++ {
				members = append(members, interfaces.CommitteeMember{Id: memberId(i), Weight: 1})
			}
			w.Committee = func(hh uint64) []interfaces.CommitteeMember { return members }
			node := NewRealNode(w, 0, memberId(0), nil)
			h := uint64(2 + it)
			mk := func(b *FakeBlock, signers []int) []byte {
				ref := &protocol.BlockRefBuilder{MessageType: protocol.LEAN_HELIX_COMMIT, InstanceId: primitives.InstanceId(inst), BlockHeight: primitives.BlockHeight(h), BlockHash: blockHash(b)}
				var nodes []*protocol.SenderSignatureBuilder
				for _, k := range signers {
					nodes = append(nodes, &protocol.SenderSignatureBuilder{MemberId: memberId(k), Signature: node.KM.SignAs(memberId(k), h, ref.Build().Raw())})
				}
				seed := randomseed.CalculateRandomSeed(nil)
				return (&protocol.BlockProofBuilder{BlockRef: ref, Nodes: nodes, RandomSeedSignature: w.AggSig(h, seed)}).Build().Raw()
			}
			good, bad := &FakeBlock{H: h, Id: 1}, &FakeBlock{H: h, Id: 2}
			all := make([]int, 0, n)
			for k := 0; k < n-1; k++ {
				all = append(all, k)
			}
			genuine := mk(good, all)      // n-1 of n unit weights: a quorum
			forged := mk(bad, []int{n - 1}) // one signer
			prev := &FakeBlock{H: h - 1}
			inForged := make(chan struct{}, 1)
			resume := make(chan struct{})
			node.KM.VerifyGate = func(sender []byte) {
				if string(sender) == string(memberId(n-1)) {
					select {
					case inForged <- struct{}{}:
					default:
					}
					select {
					case <-resume:
					case <-time.After(2 * time.Second):
					}
				}
			}
			res := make(chan error, 1)
			go func() { res <- node.Worker.ValidateBlockConsensus(context.Background(), bad, forged, prev, nil, soft) }()
			select {
			case <-inForged:
			case <-time.After(2 * time.Second):
				c.Class("blockproof-overlap/not-reached")
			}
			errGood := node.Worker.ValidateBlockConsensus(context.Background(), good, genuine, prev, nil, soft)
			close(resume)
			var errBad error
			select {
			case errBad = <-res:
			case <-time.After(3 * time.Second):
				errBad = fmt.Errorf("timeout")
			}
			node.KM.VerifyGate = nil
			if errGood != nil {
				c.Class("blockproof-overlap/genuine-refused")
			}
			// one unit-weight signer of n >= 4: below the quorum, and (soft mode) not above f = (n-1)/3 >= 1
			if errBad == nil {
				c.Violation("C02", "forged-proof-accepted-during-overlap", fmt.Sprintf("soft=%v n=%d: a proof with ONE valid signature was accepted while a genuine proof for another block of the same height was being validated on the same node", soft, n), "blockproof-overlap")
			}
			c.Class("blockproof-overlap")
			c.Nontrivial(fmt.Sprintf("blockproof-overlap/%v/%d", soft, n))
		}
	}
}
