package main

// Directed scenarios added in round 4: histories in which something a correct node verified earlier
// (a signature, a seed share), or logged earlier (a PREPARE for a view it had not reached), is offered
// again in another role; and certificates of two views above 0 offered in an adversarial order.

import (
	"fmt"

	"github.com/orbs-network/lean-helix-go/services/interfaces"
	"github.com/orbs-network/lean-helix-go/spec/types/go/protocol"
)

func typOf(f *Flight) string { return fmt.Sprintf("%T", interfaces.ToConsensusMessage(f.Raw)) }

// deliverWhere delivers (and removes from the wire) every message in flight that satisfies pred, including those sent meanwhile
func (net *Net) deliverWhere(pred func(f *Flight) bool) {
	for guard := 0; guard < 3000; guard++ {
		idx := -1
		for i, f := range net.pool {
			if pred(f) {
				idx = i
				break
			}
		}
		if idx < 0 {
			return
		}
		f := net.pool[idx]
		net.pool = append(net.pool[:idx], net.pool[idx+1:]...)
		net.deliverFlight(f)
	}
}

func (net *Net) allTimeout() {
	for _, n := range net.order {
		net.timeout(n, false)
	}
}

// two-locks-high: like two-locks, but both certificates are of views above 0 (X in view 1, Y in view 2,
// both proposed by Byzantine leaders by the book and prepared by the correct members on the wire only);
// the Byzantine leader of view 3 lists Y's certificate first and X's last and re-proposes the OLDER block X.
func scenarioTwoLocksHigh(c *Ctx) *Net {
	// 10 equal members, f = 3, Q = 7; Byzantine: members 1, 2, 3 (leaders of views 1, 2, 3)
	net := NewNet(c, NetOpts{N: 10, Weights: []uint64{1, 1, 1, 1, 1, 1, 1, 1, 1, 1}, ByzIdx: []int{1, 2, 3}, Inst: 100}, "two-locks-high n=10 byz=[1 2 3]")
	net.timely = true
	net.start()
	a := net.adv
	inst, h := uint64(100), uint64(1)
	net.pool = nil // view 0 is lost
	for v := uint64(1); v <= 2; v++ {
		net.allTimeout()
		net.pool = nil // the votes went to the Byzantine leader (seen), nobody is prepared
		blk := a.newBlock(h, false)
		votes := a.genuineVotes(h, v, true, nil)
		pp := a.ppContent(memberId(int(v)), protocol.LEAN_HELIX_PREPREPARE, inst, h, v, blockHash(blk))
		a.toAll(a.mkNV(memberId(int(v)), protocol.LEAN_HELIX_NEW_VIEW, inst, h, v, votes, pp, blk), "nv-by-the-book")
		net.pool = nil // the correct members' PREPAREs are on the wire (seen) but reach nobody
	}
	net.allTimeout()
	net.pool = nil
	proofX, blkX := a.genuineProof(h, 1)
	proofY, _ := a.genuineProof(h, 2)
	if proofX == nil || proofY == nil || blkX == nil || len(proofX.PrepareSenders) < 7 || len(proofY.PrepareSenders) < 7 {
		c.Class("scenario/two-locks-high/not-reached")
		return net
	}
	votes := a.genuineVotes(h, 3, false, nil)
	votes = append(votes, a.vcContent(memberId(1), protocol.LEAN_HELIX_VIEW_CHANGE, inst, h, 3, proofY))
	votes = append(votes, a.vcContent(memberId(2), protocol.LEAN_HELIX_VIEW_CHANGE, inst, h, 3, proofX))
	pp := a.ppContent(memberId(3), protocol.LEAN_HELIX_PREPREPARE, inst, h, 3, blockHash(blkX))
	a.toAll(a.mkNV(memberId(3), protocol.LEAN_HELIX_NEW_VIEW, inst, h, 3, votes, pp, blkX), "nv-lower-lock-listed-last")
	// and with the certificates listed the other way round
	votes = a.genuineVotes(h, 3, false, nil)
	votes = append([]*protocol.ViewChangeMessageContentBuilder{a.vcContent(memberId(2), protocol.LEAN_HELIX_VIEW_CHANGE, inst, h, 3, proofX), a.vcContent(memberId(1), protocol.LEAN_HELIX_VIEW_CHANGE, inst, h, 3, proofY)}, votes...)
	a.toAll(a.mkNV(memberId(3), protocol.LEAN_HELIX_NEW_VIEW, inst, h, 3, votes, pp, blkX), "nv-lower-lock-listed-first")
	net.drainExcept("")
	return net
}

// early-leader-prepare: the Byzantine leader of view 2 sends its own PREPARE for view 2 (for the block it
// will propose there) while the correct members are still in view 0.  Later it runs view 2 by the book,
// the correct members become prepared, the COMMITs are lost and everybody times out: the votes the correct
// members send to the correct leader of view 3 carry the proof they extract from their logs, and the
// NEW_VIEW of that leader embeds them.
func scenarioEarlyLeaderPrepare(c *Ctx) *Net {
	// weights (1,2,3,4): W = 10, f = 3, Q = 7; Byzantine: member 2 (weight 3), leader of view 2
	net := NewNet(c, NetOpts{N: 4, Weights: []uint64{1, 2, 3, 4}, ByzIdx: []int{2}, Inst: 100}, "early-leader-prepare weights=[1 2 3 4] byz=[2]")
	net.timely = true
	net.start()
	a := net.adv
	inst, h := uint64(100), uint64(1)
	byz := memberId(2)
	x := a.newBlock(h, false)
	a.toAll(a.mkP(byz, protocol.LEAN_HELIX_PREPARE, inst, h, 2, blockHash(x)), "leader-prepare-for-own-future-view")
	net.pool = nil // view 0 is lost
	net.allTimeout()
	net.pool = nil // view 1 is lost too
	net.allTimeout()
	net.pool = nil // the votes for view 2 went to the Byzantine leader (seen)
	votes := a.genuineVotes(h, 2, true, nil)
	pp := a.ppContent(byz, protocol.LEAN_HELIX_PREPREPARE, inst, h, 2, blockHash(x))
	a.toAll(a.mkNV(byz, protocol.LEAN_HELIX_NEW_VIEW, inst, h, 2, votes, pp, x), "nv-by-the-book")
	// once more, now that the correct members are in view 2 and hold the proposal
	a.toAll(a.mkP(byz, protocol.LEAN_HELIX_PREPARE, inst, h, 2, blockHash(x)), "leader-prepare-for-own-view")
	net.deliverWhere(func(f *Flight) bool { return typOf(f) == "*interfaces.PrepareMessage" })
	net.pool = nil // COMMITs are lost
	net.allTimeout()
	net.deliverWhere(func(f *Flight) bool { return typOf(f) == "*interfaces.ViewChangeMessage" })
	net.deliverWhere(func(f *Flight) bool { return typOf(f) == "*interfaces.NewViewMessage" })
	net.drainExcept("")
	return net
}

// commit-replays: view 0 runs until every correct member is prepared and has verified the Byzantine
// member's genuine PREPARE and one correct member's genuine COMMIT.  The victim (weight 4) then holds
// COMMIT weight 5 < Q = 7 and receives, from the Byzantine member (weight 3):
//   (a) a COMMIT with a genuine header signature whose seed share is a copy of the share in the correct
//       member's COMMIT the victim verified a moment ago;
//   (b) a COMMIT whose "signature" is the signature of the Byzantine member's own PREPARE for the same
//       (height, view, hash), which the victim verified a moment ago, with a genuine share.
// Neither may be counted: with either of them the victim would commit on a certificate its peers reject.
func scenarioCommitReplays(c *Ctx, which int) *Net {
	net := NewNet(c, NetOpts{N: 4, Weights: []uint64{1, 2, 3, 4}, ByzIdx: []int{2}, Inst: 100}, fmt.Sprintf("commit-replays-%d weights=[1 2 3 4] byz=[2]", which))
	net.timely = true
	net.start()
	a := net.adv
	inst, h := uint64(100), uint64(1)
	byz := memberId(2)
	victim := net.nodes[string(memberId(3))]
	var hash []byte
	for _, f := range net.pool {
		if pp, ok := interfaces.ToConsensusMessage(f.Raw).(*interfaces.PreprepareMessage); ok {
			hash = pp.Content().SignedHeader().BlockHash()
		}
	}
	if hash == nil || victim == nil {
		c.Class("scenario/commit-replays/not-reached")
		return net
	}
	net.deliverWhere(func(f *Flight) bool { return typOf(f) == "*interfaces.PreprepareMessage" })
	genuineP := a.mkP(byz, protocol.LEAN_HELIX_PREPARE, inst, h, 0, hash)
	a.toAll(genuineP, "byz-prepare")
	net.deliverWhere(func(f *Flight) bool { return typOf(f) == "*interfaces.PrepareMessage" })
	// the victim gets the COMMIT of member 0 (weight 1) only
	var share0 []byte
	net.deliverWhere(func(f *Flight) bool {
		if cm, ok := interfaces.ToConsensusMessage(f.Raw).(*interfaces.CommitMessage); ok && string(f.To) == string(victim.Id) && string(f.From) == string(memberId(0)) {
			share0 = cm.Content().Share()
			return true
		}
		return false
	})
	if share0 == nil {
		c.Class("scenario/commit-replays/not-reached")
		return net
	}
	ref := a.refB(protocol.LEAN_HELIX_COMMIT, inst, h, 0, hash)
	switch which {
	case 0:
		cb := &protocol.CommitContentBuilder{SignedHeader: ref, Sender: a.senderB(byz, h, ref.Build().Raw()), Share: share0}
		a.inject(victim, interfaces.NewCommitMessage(cb.Build()).ToConsensusRawMessage(), "commit-with-another-members-verified-share")
	case 1:
		psig := interfaces.ToConsensusMessage(genuineP).(*interfaces.PrepareMessage).Content().Sender().Signature()
		cb := &protocol.CommitContentBuilder{SignedHeader: ref, Sender: &protocol.SenderSignatureBuilder{MemberId: byz, Signature: psig}, Share: a.share(byz, h)}
		a.inject(victim, interfaces.NewCommitMessage(cb.Build()).ToConsensusRawMessage(), "commit-with-own-verified-prepare-signature")
	}
	net.drainExcept("")
	return net
}

// vote-signature-replay: view 1 is run by its correct leader; two correct members adopt its NEW_VIEW and
// thereby verify the votes of the members that elected it.  The Byzantine leader of view 2 then sends a
// NEW_VIEW for view 2 whose quorum consists of its own genuine vote and "votes" of correct members for
// view 2 that nobody cast: new content, with the signature bytes of their votes for view 1.
func scenarioVoteSignatureReplay(c *Ctx) *Net {
	net := NewNet(c, NetOpts{N: 4, Weights: []uint64{1, 2, 3, 4}, ByzIdx: []int{2}, Inst: 100}, "vote-signature-replay weights=[1 2 3 4] byz=[2]")
	net.timely = true
	net.start()
	a := net.adv
	inst, h := uint64(100), uint64(1)
	byz := memberId(2)
	net.pool = nil // view 0 is lost
	net.allTimeout()
	net.deliverWhere(func(f *Flight) bool { return typOf(f) == "*interfaces.ViewChangeMessage" })
	net.deliverWhere(func(f *Flight) bool { return typOf(f) == "*interfaces.NewViewMessage" })
	net.pool = nil // the PREPAREs of view 1 are lost
	// signatures of the votes for view 1, as seen on the wire
	sigs := map[string][]byte{}
	for _, s := range a.seen() {
		switch m := s.m.(type) {
		case *interfaces.ViewChangeMessage:
			if uint64(m.BlockHeight()) == h && uint64(m.View()) == 1 {
				sigs[string(m.SenderMemberId())] = m.Content().Sender().Signature()
			}
		case *interfaces.NewViewMessage:
			if uint64(m.BlockHeight()) == h && uint64(m.View()) == 1 {
				it := m.Content().SignedHeader().ViewChangeConfirmationsIterator()
				for it.HasNext() {
					vc := it.NextViewChangeConfirmations()
					sigs[string(vc.Sender().MemberId())] = vc.Sender().Signature()
				}
			}
		}
	}
	if len(sigs) == 0 {
		c.Class("scenario/vote-signature-replay/not-reached")
		return net
	}
	votes := []*protocol.ViewChangeMessageContentBuilder{a.vcContent(byz, protocol.LEAN_HELIX_VIEW_CHANGE, inst, h, 2, nil)}
	for _, mem := range net.members {
		if sig, ok := sigs[string(mem.Id)]; ok && !a.isByz(mem.Id) {
			hdr := &protocol.ViewChangeHeaderBuilder{MessageType: protocol.LEAN_HELIX_VIEW_CHANGE, InstanceId: 100, BlockHeight: 1, View: 2}
			votes = append(votes, &protocol.ViewChangeMessageContentBuilder{SignedHeader: hdr, Sender: &protocol.SenderSignatureBuilder{MemberId: mem.Id, Signature: sig}})
		}
	}
	z := a.newBlock(h, false)
	pp := a.ppContent(byz, protocol.LEAN_HELIX_PREPREPARE, inst, h, 2, blockHash(z))
	a.toAll(a.mkNV(byz, protocol.LEAN_HELIX_NEW_VIEW, inst, h, 2, votes, pp, z), "nv-votes-with-replayed-signatures")
	net.drainExcept("")
	return net
}

// foreign-instance-future: while a correct member lags at height 1, a Byzantine member sends it a PREPREPARE,
// PREPARE and COMMIT for height 2 that are validly signed but carry ANOTHER instance id (as a sibling instance
// sharing the keys would produce them), and the same for height 1 (dropped at once).  The member then receives
// the traffic of height 1, commits, and starts height 2: nothing of the other instance may reach its term.
func scenarioForeignInstanceFuture(c *Ctx) *Net {
	net := NewNet(c, NetOpts{N: 4, Weights: []uint64{1, 1, 1, 1}, ByzIdx: []int{3}, Inst: 100}, "foreign-instance-future n=4 byz=[3]")
	net.timely = true
	net.start()
	a := net.adv
	L := net.nodes[string(memberId(2))]
	byz := memberId(3)
	foreign := uint64(1100)
	var held []*Flight
	// the others decide height 1 (the Byzantine member helps with by-the-book PREPARE / COMMIT)
	var hash []byte
	for _, f := range net.pool {
		if pp, ok := interfaces.ToConsensusMessage(f.Raw).(*interfaces.PreprepareMessage); ok {
			hash = pp.Content().SignedHeader().BlockHash()
		}
	}
	if hash == nil || L == nil {
		c.Class("scenario/foreign-instance-future/not-reached")
		return net
	}
	for _, hh := range []uint64{1, 2} {
		blk := a.newBlock(hh, false)
		ld := a.leaderOf(0)
		if a.isByz(ld) {
			a.inject(L, a.mkPP(ld, foreign, hh, 0, blk), "foreign-instance-pp")
		}
		for _, hx := range [][]byte{blockHash(blk), hash} {
			a.inject(L, a.mkP(byz, protocol.LEAN_HELIX_PREPARE, foreign, hh, 0, hx), "foreign-instance-prepare")
			a.inject(L, a.mkC(byz, protocol.LEAN_HELIX_COMMIT, foreign, hh, 0, hx), "foreign-instance-commit")
		}
	}
	a.toAll(a.mkP(byz, protocol.LEAN_HELIX_PREPARE, 100, 1, 0, hash), "byz-prepare")
	a.toAll(a.mkC(byz, protocol.LEAN_HELIX_COMMIT, 100, 1, 0, hash), "byz-commit")
	for guard := 0; guard < 3000 && len(net.pool) > 0; guard++ {
		f := net.pool[0]
		net.pool = net.pool[1:]
		if string(f.To) == string(L.Id) {
			held = append(held, f)
			continue
		}
		if uint64(interfaces.ToConsensusMessage(f.Raw).BlockHeight()) > 2 {
			continue
		}
		net.deliverFlight(f)
	}
	// the second height's proposal hash is now known: once more with that hash, still while the member is at height 1
	for _, s := range a.seen() {
		if pp, ok := s.m.(*interfaces.PreprepareMessage); ok && uint64(pp.BlockHeight()) == 2 {
			h2 := pp.Content().SignedHeader().BlockHash()
			a.inject(L, a.mkP(byz, protocol.LEAN_HELIX_PREPARE, foreign, 2, 0, h2), "foreign-instance-prepare")
			a.inject(L, a.mkC(byz, protocol.LEAN_HELIX_COMMIT, foreign, 2, 0, h2), "foreign-instance-commit")
			break
		}
	}
	// now the laggard receives what it missed, oldest height first
	for _, hh := range []uint64{1, 2} {
		for _, f := range held {
			if uint64(interfaces.ToConsensusMessage(f.Raw).BlockHeight()) == hh {
				net.deliverFlight(f)
			}
		}
	}
	net.drainExcept("")
	return net
}
