package main

import (
	"context"
	"fmt"
	"sync"
	"time"

	leanhelix "github.com/orbs-network/lean-helix-go"
	"github.com/orbs-network/lean-helix-go/services/interfaces"
	"github.com/orbs-network/lean-helix-go/spec/types/go/protocol"
)

// commitPanicScenario (C13): the consumer's commit callback crashes (panics) while height 1 is being handed
// over; the supervisor (govnr.Forever) recovers and restarts the worker loop, with the same filter and term.
// Late COMMITs for the same (height, view, block) then arrive — the remaining member's, and a duplicate: the
// height must not be handed over a second time.  Monitor only (a real MainLoop, both goroutines).
func commitPanicScenario(c *Ctx) {
	rounds := 2
	if c.Thorough() {
		rounds = 8
	}
	for it := 0; it < rounds; it++ {
		w := NewWorld(100)
		var members []interfaces.CommitteeMember
		for i := 0; i < 4; i++ {
			members = append(members, interfaces.CommitteeMember{Id: memberId(i), Weight: 1})
		}
		w.Committee = func(h uint64) []interfaces.CommitteeMember { return members }
		cfg, _, comm, _ := simpleConfig(w, memberId(0))
		var mu sync.Mutex
		var heights []uint64
		crashNext := true
		ml := leanhelix.NewLeanHelix(cfg, func(ctx context.Context, block interfaces.Block, blockProof []byte) error {
			mu.Lock()
			heights = append(heights, uint64(block.Height()))
			crash := crashNext
			crashNext = false
			mu.Unlock()
			if crash {
				panic("consumer crashed inside the commit callback")
			}
			return nil
		}, nil)
		ctx, cancel := context.WithCancel(context.Background())
		ml.Run(ctx)
		net := &Net{w: w}
		a := &Adversary{net: net, km: &FakeKeyManager{w: w, me: memberId(1)}}
		send := func(raw *interfaces.ConsensusRawMessage) {
			tctx, tc := context.WithTimeout(ctx, time.Second)
			ml.HandleConsensusMessage(tctx, raw)
			tc()
		}
		tctx, tc := context.WithTimeout(ctx, time.Second)
		ml.UpdateState(tctx, nil, nil)
		tc()
		var hash []byte
		for k := 0; k < 400 && hash == nil; k++ {
			time.Sleep(5 * time.Millisecond)
			comm.mu.Lock()
			for _, s := range comm.Outbox {
				if pp, ok := interfaces.ToConsensusMessage(s.Raw).(*interfaces.PreprepareMessage); ok {
					hash = pp.Content().SignedHeader().BlockHash()
				}
			}
			comm.mu.Unlock()
		}
		count := func() int { mu.Lock(); defer mu.Unlock(); return len(heights) }
		reached := false
		if hash != nil {
			for _, m := range []int{1, 2} {
				send(a.mkP(memberId(m), protocol.LEAN_HELIX_PREPARE, 100, 1, 0, hash))
			}
			for _, m := range []int{1, 2} {
				send(a.mkC(memberId(m), protocol.LEAN_HELIX_COMMIT, 100, 1, 0, hash))
			}
			for k := 0; k < 400 && !reached; k++ {
				time.Sleep(5 * time.Millisecond)
				reached = count() >= 1
			}
		}
		if !reached {
			c.Class("commit-panic/not-reached")
			cancel()
			continue
		}
		time.Sleep(time.Duration(20+20*it) * time.Millisecond) // the supervisor restarts the worker loop
		send(a.mkC(memberId(3), protocol.LEAN_HELIX_COMMIT, 100, 1, 0, hash))
		send(a.mkC(memberId(1), protocol.LEAN_HELIX_COMMIT, 100, 1, 0, hash))
		send(a.mkP(memberId(3), protocol.LEAN_HELIX_PREPARE, 100, 1, 0, hash))
		time.Sleep(150 * time.Millisecond)
		mu.Lock()
		hs := append([]uint64{}, heights...)
		mu.Unlock()
		for i := 1; i < len(hs); i++ {
			if hs[i] <= hs[i-1] {
				c.Violation("C13", "commit-height-not-increasing", fmt.Sprintf("the commit callback crashed once while height %d was handed over (the supervisor restarted the worker loop); after a late COMMIT for the same block the callback was invoked again: heights handed over %v", hs[0], hs), "commit-panic")
				break
			}
		}
		c.Class("commit-panic")
		c.Nontrivial(fmt.Sprintf("commit-panic/callbacks=%d", len(hs)))
		cancel()
		wctx, wc := context.WithTimeout(context.Background(), 2*time.Second)
		ml.WaitUntilShutdown(wctx)
		wc()
	}
}
