package main

import (
	"fmt"

	"github.com/orbs-network/lean-helix-go/services/interfaces"
	"github.com/orbs-network/lean-helix-go/spec/types/go/protocol"
)

func init() { suites["node"] = suiteNode }

func suiteNode(c *Ctx) {
	r := c.Rng
	nsc := 30
	if c.Thorough() {
		nsc = 400
	}
	for i := 0; i < 4; i++ {
		n := 4 + r.Intn(3)
		ws := make([]uint64, n)
		for k := range ws {
			ws[k] = uint64(1 + r.Intn(2))
		}
		scenarioLaggard(c, n, ws, 100, i)
		c.Class("scenario/laggard")
	}
	for i := 0; i < 3; i++ {
		scenarioCommitsFirst(c, 4+i, uint64(100+i))
		c.Class("scenario/commits-first")
	}
	for i := 0; i < 4; i++ {
		scenarioElectedWhileBehind(c, 4+i%3, uint64(100+i), 1+i%3)
		c.Class("scenario/elected-while-behind")
	}
	for i := 0; i < nsc; i++ {
		n := 4 + r.Intn(4)
		ws := make([]uint64, n)
		switch r.Intn(3) {
		case 0:
			for k := range ws {
				ws[k] = 1
			}
		case 1:
			for k := range ws {
				ws[k] = uint64(1 + r.Intn(4))
			}
		default:
			for k := range ws {
				ws[k] = uint64(1 + r.Intn(3))
			}
			ws[r.Intn(n)] = uint64(3 + r.Intn(6))
		}
		opts := NetOpts{N: n, Weights: ws, Inst: uint64(100 + r.Intn(3)), IdScheme: schemeFor(i), SendErrs: i%4 == 2}
		net := NewNet(c, opts, fmt.Sprintf("honest n=%d weights=%v ids=%d", n, ws, opts.IdScheme))
		prof := SchedProfile{Drop: 30, Dup: 30, Timeout: 25, StaleTimeout: 200, Sync: 5, Byz: 0, CancelDuring: 10, CommitFail: 10, MaxSteps: 400, MaxHeight: 3, PendingSync: 8}
		if i%3 == 1 {
			prof.Timeout, prof.Drop = 120, 150
		}
		net.run(prof)
		if i%2 == 0 {
			net.stabilise()
		}
		c.Class(fmt.Sprintf("scenario/honest/n%d", n))
	}
	scenarioD5Fork(c)
	c.Class("scenario/d5-fork")
	scenarioTwoLocks(c)
	c.Class("scenario/two-locks")
	scenarioEquivocationCommit(c)
	c.Class("scenario/equivocation-commit")
	scenarioPaddedPrepare(c, false)
	scenarioPaddedPrepare(c, true)
	c.Class("scenario/padded-prepare")
	for sch := 0; sch < 3; sch++ {
		scenarioOutsidersFirst(c, sch)
	}
	c.Class("scenario/outsiders-first")
	scenarioForeignEmbeddedProposal(c)
	c.Class("scenario/nv-foreign-embedded-proposal")
	scenarioNewViewWrongBlock(c)
	c.Class("scenario/nv-wrong-block")
	scenarioProofMutationSweep(c)
	c.Class("scenario/proof-mutation-sweep")
	scenarioNewViewMutationSweep(c)
	c.Class("scenario/newview-mutation-sweep")
	scenarioCommitWhileSyncPending(c)
	c.Class("scenario/commit-while-sync-pending")
	scenarioTwoBlockProof(c)
	c.Class("scenario/two-block-proof")
	scenarioLateCommitAfterLaterProposal(c)
	c.Class("scenario/late-commit-after-later-proposal")
	scenarioNewViewValidatedDuringOwnTimeout(c)
	c.Class("scenario/newview-validated-during-own-timeout")
	scenarioVoteWithBlockWithoutProof(c)
	c.Class("scenario/vote-with-block-without-proof")
	scenarioTwoLocksHigh(c)
	c.Class("scenario/two-locks-high")
	scenarioEarlyLeaderPrepare(c)
	c.Class("scenario/early-leader-prepare")
	scenarioCommitReplays(c, 0)
	scenarioCommitReplays(c, 1)
	c.Class("scenario/commit-replays")
	scenarioVoteSignatureReplay(c)
	c.Class("scenario/vote-signature-replay")
	scenarioForeignInstanceFuture(c)
	c.Class("scenario/foreign-instance-future")
	// adversarial scenarios: Byzantine members of total weight <= f, all strategies
	nadv := 60
	if c.Thorough() {
		nadv = 1200
	}
	for i := 0; i < nadv; i++ {
		n := 4 + r.Intn(4)
		ws := make([]uint64, n)
		switch r.Intn(3) {
		case 0:
			for k := range ws {
				ws[k] = 1
			}
		case 1:
			for k := range ws {
				ws[k] = uint64(1 + r.Intn(4))
			}
		default:
			for k := range ws {
				ws[k] = uint64(1 + r.Intn(3))
			}
			ws[r.Intn(n)] = uint64(3 + r.Intn(4))
		}
		var W uint64
		for _, w := range ws {
			W += w
		}
		f := (W - 1) / 3
		// choose a Byzantine subset of weight <= f (greedy over a random permutation), at least one member when possible
		perm := r.Perm(n)
		var byz []int
		var bw uint64
		for _, k := range perm {
			if bw+ws[k] <= f && len(byz) < n-3 {
				byz = append(byz, k)
				bw += ws[k]
			}
		}
		if len(byz) == 0 {
			continue
		}
		opts := NetOpts{N: n, Weights: ws, ByzIdx: byz, Inst: uint64(100 + r.Intn(3)), IdScheme: schemeFor(i), SendErrs: i%4 == 3}
		net := NewNet(c, opts, fmt.Sprintf("byzantine n=%d weights=%v byz=%v ids=%d", n, ws, byz, opts.IdScheme))
		prof := SchedProfile{Drop: 20, Dup: 20, Timeout: 40, StaleTimeout: 100, Sync: 3, Byz: 120, CancelDuring: 10, CommitFail: 5, MaxSteps: 500, MaxHeight: 2, PendingSync: 4}
		if i%4 == 1 {
			prof.Timeout = 150
		}
		if i%4 == 2 {
			prof.MaxSteps = 40 + r.Intn(200) // the network heals early: mixed states at low views
		}
		net.run(prof)
		if i%2 == 0 {
			net.stabilise()
		}
		c.Class(fmt.Sprintf("scenario/byzantine/n%d/b%d", n, len(byz)))
	}	// round 5: directed scenarios after the pseudo-random phases (their streams stay as they were)
	scenarioNewViewSweepNoLock(c)
	c.Class("scenario/newview-sweep-no-lock")
	scenarioMinorityPreparedOverridden(c)
	c.Class("scenario/minority-prepared-overridden")
	scenarioHeavyLaggard(c)
	c.Class("scenario/heavy-laggard")
	scenarioSyncWithoutProof(c)
	c.Class("scenario/sync-without-proof")
	scenarioMinorityPreparedStalled(c)
	c.Class("scenario/minority-prepared-stalled")
	scenarioBadShareFirstInCache(c)
	c.Class("scenario/bad-share-first-in-cache")
	for _, nn := range []int{5, 6, 7} {
		scenarioHugeViewThenViewZero(c, nn)
	}
	c.Class("scenario/huge-view-then-view-zero")
	scenarioGluedProofBeatsLock(c)
	c.Class("scenario/glued-proof-beats-lock")
	nam := 6
	if c.Thorough() {
		nam = 60
	}
	for k := 0; k < nam; k++ {
		scenarioAfterAcceptMutations(c, k)
	}
	c.Class("scenario/after-accept-mutations")
	scenarioStrayPrepareInPreparedView(c)
	c.Class("scenario/stray-prepare-in-prepared-view")
	scenariosDescendingIds(c)
	c.Class("scenario/descending-ids")
	scenarioHeavyLeader(c)
	c.Class("scenario/heavy-leader")
	scenarioHeavyMemberTimesOut(c)
	c.Class("scenario/heavy-member-times-out")
	scenarioNewViewSendFailsThenLateVote(c)
	c.Class("scenario/newview-send-fails-then-late-vote")
	for k := 0; k < 4; k++ {
		scenarioTwoLocksHonestLeader(c, k)
	}
	c.Class("scenario/two-locks-honest-leader")
}

// schemeFor: every fifth scenario uses long ids with a common three-byte prefix, every seventh ids
// that differ only after their twentieth byte (abbreviations and fixed-size keys must not be used as identities)
func schemeFor(i int) int {
	switch {
	case i%5 == 3:
		return 1
	case i%7 == 5:
		return 2
	}
	return 0
}

// laggard: one correct node receives nothing while the others decide two heights, then receives
// the newest height first (future cache) and the older one afterwards: commits complete inside the
// cache drain, so rounds start inside deliveries.
func scenarioLaggard(c *Ctx, n int, ws []uint64, inst uint64, lag int) *Net {
	net := NewNet(c, NetOpts{N: n, Weights: ws, Inst: inst}, fmt.Sprintf("laggard n=%d weights=%v lag=%d", n, ws, lag))
	net.start()
	L := net.order[lag%len(net.order)]
	var held []*Flight
	for guard := 0; guard < 3000; guard++ {
		doneOthers := true
		for _, o := range net.order {
			if o != L && uint64(o.St.Height()) <= 2 {
				doneOthers = false
			}
		}
		if doneOthers {
			break
		}
		if len(net.pool) == 0 {
			// progress needs a timeout (e.g. the laggard is the leader): fire at a random other node
			o := net.order[net.r.Intn(len(net.order))]
			if o != L {
				net.timeout(o, false)
			}
			continue
		}
		f := net.pool[0]
		net.pool = net.pool[1:]
		if string(f.To) == string(L.Id) {
			held = append(held, f)
			continue
		}
		net.deliverFlight(f)
	}
	// newest height first
	height := func(f *Flight) uint64 { return uint64(interfaces.ToConsensusMessage(f.Raw).BlockHeight()) }
	for _, hh := range []uint64{2, 1, 3} {
		for _, f := range held {
			if height(f) == hh {
				net.deliverFlight(f)
			}
		}
	}
	return net
}


// commits-first: one node receives the proposal, then a commit quorum (its commit callback fails),
// and only then the PREPAREs: the commit path is entered twice (from the COMMITs and from becoming prepared).
func scenarioCommitsFirst(c *Ctx, n int, inst uint64) *Net {
	ws := make([]uint64, n)
	for k := range ws {
		ws[k] = 1
	}
	net := NewNet(c, NetOpts{N: n, Weights: ws, Inst: inst}, fmt.Sprintf("commits-first n=%d", n))
	net.start()
	L := net.order[n-1]
	var held []*Flight
	for guard := 0; guard < 2000 && len(net.pool) > 0; guard++ {
		f := net.pool[0]
		net.pool = net.pool[1:]
		if string(f.To) == string(L.Id) {
			held = append(held, f)
			continue
		}
		if uint64(interfaces.ToConsensusMessage(f.Raw).BlockHeight()) > 1 {
			continue
		}
		net.deliverFlight(f)
	}
	typ := func(f *Flight) string { return fmt.Sprintf("%T", interfaces.ToConsensusMessage(f.Raw)) }
	for _, want := range []string{"*interfaces.PreprepareMessage", "*interfaces.CommitMessage", "*interfaces.PrepareMessage"} {
		for _, f := range held {
			if typ(f) == want && uint64(interfaces.ToConsensusMessage(f.Raw).BlockHeight()) == 1 {
				if want == "*interfaces.CommitMessage" {
					L.CommitCbFails = true
				}
				net.deliverFlight(f)
				L.CommitCbFails = false
			}
		}
	}
	return net
}

// elected-while-behind: a node still in view 0 collects a quorum of VIEW_CHANGE votes for a view it
// leads, and while it asks the consumer for a block the (late) election trigger of an older view is
// handled by the main loop.
func scenarioElectedWhileBehind(c *Ctx, n int, inst uint64, cancelKind int) *Net {
	ws := make([]uint64, n)
	for k := range ws {
		ws[k] = 1
	}
	net := NewNet(c, NetOpts{N: n, Weights: ws, Inst: inst}, fmt.Sprintf("elected-while-behind n=%d cancel=%d", n, cancelKind))
	net.start()
	net.pool = nil // the view-0 proposal is lost
	target := 1 + net.r.Intn(2)
	L := net.nodes[string(net.members[target%n].Id)]
	for v := 0; v < target; v++ {
		for _, o := range net.order {
			if o != L {
				net.timeout(o, false)
			}
		}
		if v < target-1 {
			net.pool = nil
		}
	}
	L.CancelDuring = cancelKind
	for _, f := range net.pool {
		if string(f.To) == string(L.Id) {
			net.deliverFlight(f)
		}
	}
	L.CancelDuring = 0
	net.pool = nil
	return net
}

// d5-fork: the known finding D5 driven to a fork. Weights (1,2,3,4): W=10, f=3, Q=7; the only
// Byzantine member is member 1 (weight 2 <= f), leader of view 1. View 0 decides X at member 0
// only; members 2 and 3 (prepared on X) time out; the Byzantine leader of view 1 sends them a bare
// PREPREPARE(v=1, Y) — no NEW_VIEW — and they decide Y.
func scenarioD5Fork(c *Ctx) *Net {
	net := NewNet(c, NetOpts{N: 4, Weights: []uint64{1, 2, 3, 4}, ByzIdx: []int{1}, Inst: 100}, "d5-fork weights=[1 2 3 4] byz=[1]")
	net.start()
	n0, n2, n3 := net.nodes[string(memberId(0))], net.nodes[string(memberId(2))], net.nodes[string(memberId(3))]
	typ := func(f *Flight) string { return fmt.Sprintf("%T", interfaces.ToConsensusMessage(f.Raw)) }
	deliverWhere := func(pred func(f *Flight) bool) {
		for {
			idx := -1
			for i, f := range net.pool {
				if pred(f) {
					idx = i
					break
				}
			}
			if idx < 0 {
				return
			}
			f := net.pool[idx]
			net.pool = append(net.pool[:idx], net.pool[idx+1:]...)
			net.deliverFlight(f)
		}
	}
	is := func(to *RealNode, t string) func(f *Flight) bool {
		return func(f *Flight) bool { return string(f.To) == string(to.Id) && typ(f) == t }
	}
	// proposal and PREPAREs reach everybody; COMMITs of 2 and 3 reach only member 0
	deliverWhere(func(f *Flight) bool { return typ(f) == "*interfaces.PreprepareMessage" })
	deliverWhere(func(f *Flight) bool { return typ(f) == "*interfaces.PrepareMessage" })
	deliverWhere(is(n0, "*interfaces.CommitMessage"))
	net.pool = nil // everything else of view 0 is lost
	// members 2 and 3 time out and vote for view 1 (their votes carry the lock on X and go to the Byzantine leader)
	net.timeout(n2, false)
	net.timeout(n3, false)
	net.pool = nil
	// the Byzantine leader of view 1 answers with a bare PREPREPARE for another block
	y := net.adv.newBlock(1, false)
	pp := net.adv.mkPP(memberId(1), 100, 1, 1, y)
	net.adv.inject(n2, pp, "bare-pp-gt0")
	net.adv.inject(n3, pp, "bare-pp-gt0")
	deliverWhere(func(f *Flight) bool { return typ(f) == "*interfaces.PrepareMessage" && string(f.To) != string(n0.Id) })
	deliverWhere(func(f *Flight) bool { return typ(f) == "*interfaces.CommitMessage" && string(f.To) != string(n0.Id) })
	return net
}


// two-locks: the wire holds prepared certificates for two different blocks in two views (X in view
// 0, Y in view 1); the Byzantine leader of view 2 sends a NEW_VIEW whose votes list the higher proof
// first and the lower one last and re-proposes the OLDER block X.
func scenarioTwoLocks(c *Ctx) *Net {
	// 7 equal members, f = 2, Q = 5; Byzantine: members 1 and 2 (leaders of views 1 and 2)
	net := NewNet(c, NetOpts{N: 7, Weights: []uint64{1, 1, 1, 1, 1, 1, 1}, ByzIdx: []int{1, 2}, Inst: 100}, "two-locks n=7 byz=[1 2]")
	net.start()
	a := net.adv
	inst := uint64(100)
	typ := func(f *Flight) string { return fmt.Sprintf("%T", interfaces.ToConsensusMessage(f.Raw)) }
	// view 0: the honest leader's proposal X reaches members 3 and 4 only; their PREPAREs go on the wire but are delivered to nobody
	var keep []*Flight
	for _, f := range net.pool {
		if typ(f) == "*interfaces.PreprepareMessage" && (string(f.To) == string(memberId(3)) || string(f.To) == string(memberId(4))) {
			keep = append(keep, f)
		}
	}
	net.pool = nil
	for _, f := range keep {
		net.deliverFlight(f)
	}
	net.pool = nil
	// everybody times out to view 1 (votes go to the Byzantine leader 1; nobody is prepared)
	for _, n := range net.order {
		net.timeout(n, false)
	}
	net.pool = nil
	// view 1: Byzantine leader proposes a fresh block Y with genuine (proof-less) votes; honest members prepare Y
	y := a.newBlock(1, false)
	votes1 := a.genuineVotes(1, 1, true, nil)
	pp1 := a.ppContent(memberId(1), protocol.LEAN_HELIX_PREPREPARE, inst, 1, 1, blockHash(y))
	a.toAll(a.mkNV(memberId(1), protocol.LEAN_HELIX_NEW_VIEW, inst, 1, 1, votes1, pp1, y), "nv-by-the-book")
	net.pool = nil // their PREPAREs for Y are on the wire (seen), but delivered to nobody: no honest node becomes prepared
	// everybody times out to view 2
	for _, n := range net.order {
		net.timeout(n, false)
	}
	net.pool = nil
	// view 2: Byzantine leader 2 holds certificates (0, X) and (1, Y); it lists Y's first and X's last and re-proposes X
	proofX, blkX := a.genuineProof(1, 0)
	proofY, _ := a.genuineProof(1, 1)
	if proofX == nil || proofY == nil || blkX == nil {
		c.Class("scenario/two-locks/not-reached")
		return net
	}
	votes2 := a.genuineVotes(1, 2, false, nil)
	votes2 = append(votes2, a.vcContent(memberId(1), protocol.LEAN_HELIX_VIEW_CHANGE, inst, 1, 2, proofY))
	votes2 = append(votes2, a.vcContent(memberId(2), protocol.LEAN_HELIX_VIEW_CHANGE, inst, 1, 2, proofX))
	pp2 := a.ppContent(memberId(2), protocol.LEAN_HELIX_PREPREPARE, inst, 1, 2, blockHash(blkX))
	a.toAll(a.mkNV(memberId(2), protocol.LEAN_HELIX_NEW_VIEW, inst, 1, 2, votes2, pp2, blkX), "nv-lower-lock-listed-last")
	// and the same votes (the proof of view 1 listed before the proof of view 0) with the proposal they demand: the block certified in view 1
	if _, blkY := a.genuineProof(1, 1); blkY != nil {
		ppY := a.ppContent(memberId(2), protocol.LEAN_HELIX_PREPREPARE, inst, 1, 2, blockHash(blkY))
		a.toAll(a.mkNV(memberId(2), protocol.LEAN_HELIX_NEW_VIEW, inst, 1, 2, votes2, ppY, blkY), "nv-by-the-book-mixed-proofs")
	}
	return net
}


// equivocation-commit: a Byzantine leader of view 0 sends proposal A to one correct member and
// proposal B to the others; the others prepare and commit B; their COMMITs for B then reach the
// member that stored A.
func scenarioEquivocationCommit(c *Ctx) *Net {
	// 7 equal members, f = 2; Byzantine: member 0 (leader of view 0) and member 1
	net := NewNet(c, NetOpts{N: 7, Weights: []uint64{1, 1, 1, 1, 1, 1, 1}, ByzIdx: []int{0, 1}, Inst: 100}, "equivocation-commit n=7 byz=[0 1]")
	net.start()
	a := net.adv
	inst := uint64(100)
	victim := net.nodes[string(memberId(2))]
	blkA, blkB := a.newBlock(1, false), a.newBlock(1, false)
	a.inject(victim, a.mkPP(memberId(0), inst, 1, 0, blkA), "equivocate-pp")
	for _, n := range net.order {
		if n != victim {
			a.inject(n, a.mkPP(memberId(0), inst, 1, 0, blkB), "equivocate-pp")
		}
	}
	a.toAll(a.mkP(memberId(1), protocol.LEAN_HELIX_PREPARE, inst, 1, 0, blockHash(blkB)), "byz-prepare")
	a.toAll(a.mkC(memberId(1), protocol.LEAN_HELIX_COMMIT, inst, 1, 0, blockHash(blkB)), "byz-commit")
	a.toAll(a.mkC(memberId(0), protocol.LEAN_HELIX_COMMIT, inst, 1, 0, blockHash(blkB)), "byz-commit")
	// deliver everything (FIFO) until quiet
	for guard := 0; guard < 3000 && len(net.pool) > 0; guard++ {
		f := net.pool[0]
		net.pool = net.pool[1:]
		net.deliverFlight(f)
	}
	return net
}


// padded-prepare: a Byzantine member's PREPARE whose signed header carries trailing bytes (same
// field values, signature over exactly those bytes) completes the prepared quorum of two correct
// members; they then time out and send their VIEW_CHANGE, with the proof extracted from their log,
// to the correct leader of view 1.
func scenarioPaddedPrepare(c *Ctx, slack bool) *Net {
	net := NewNet(c, NetOpts{N: 4, Weights: []uint64{1, 1, 1, 1}, ByzIdx: []int{3}, Inst: 100}, "padded-prepare n=4 byz=[3]")
	net.start()
	a := net.adv
	typ := func(f *Flight) string { return fmt.Sprintf("%T", interfaces.ToConsensusMessage(f.Raw)) }
	var hash []byte
	var keep []*Flight
	for _, f := range net.pool {
		if typ(f) == "*interfaces.PreprepareMessage" {
			hash = interfaces.ToConsensusMessage(f.Raw).(*interfaces.PreprepareMessage).Content().SignedHeader().BlockHash()
			if string(f.To) == string(memberId(1)) || string(f.To) == string(memberId(2)) {
				keep = append(keep, f)
			}
		}
	}
	net.pool = nil
	for _, f := range keep {
		net.deliverFlight(f)
	}
	net.pool = nil // the correct members' own PREPAREs reach nobody
	if hash == nil {
		c.Class("scenario/padded-prepare/not-reached")
		return net
	}
	a.pad, a.padSlack = true, slack
	a.toAll(a.mkP(memberId(3), protocol.LEAN_HELIX_PREPARE, 100, 1, 0, hash), "byz-prepare-padded")
	a.pad, a.padSlack = false, false
	net.pool = nil // COMMITs reach nobody
	for _, n := range net.order {
		net.timeout(n, false)
	}
	// the votes for view 1 reach its (correct) leader
	for len(net.pool) > 0 {
		f := net.pool[0]
		net.pool = net.pool[1:]
		if typ(f) == "*interfaces.ViewChangeMessage" {
			net.deliverFlight(f)
		}
	}
	return net
}


// outsiders-first: before any honest PREPARE / COMMIT arrives, outsiders with valid keys (whose ids,
// under id schemes 1 and 2, share a long prefix with the members' ids) send PREPARE and COMMIT for the
// proposed hash to everybody; then all traffic is delivered.  Whatever the correct members commit must
// carry a certificate their peers accept.
func scenarioOutsidersFirst(c *Ctx, scheme int) *Net {
	net := NewNet(c, NetOpts{N: 4, Weights: []uint64{1, 1, 1, 1}, ByzIdx: []int{3}, Inst: 100, IdScheme: scheme}, fmt.Sprintf("outsiders-first n=4 byz=[3] ids=%d", scheme))
	net.start()
	a := net.adv
	var hash []byte
	for _, f := range net.pool {
		if pp, ok := interfaces.ToConsensusMessage(f.Raw).(*interfaces.PreprepareMessage); ok {
			hash = pp.Content().SignedHeader().BlockHash()
		}
	}
	if hash == nil {
		c.Class("scenario/outsiders-first/not-reached")
		return net
	}
	// deliver the proposal first, then the outsiders' messages, then everything else
	var pps, others []*Flight
	for _, f := range net.pool {
		if _, ok := interfaces.ToConsensusMessage(f.Raw).(*interfaces.PreprepareMessage); ok {
			pps = append(pps, f)
		} else {
			others = append(others, f)
		}
	}
	net.pool = nil
	for _, f := range pps {
		net.deliverFlight(f)
	}
	for _, o := range a.outsiders {
		a.toAll(a.mkP(o, protocol.LEAN_HELIX_PREPARE, 100, 1, 0, hash), "outsider-prepare")
		a.toAll(a.mkC(o, protocol.LEAN_HELIX_COMMIT, 100, 1, 0, hash), "outsider-commit")
	}
	net.pool = append(others, net.pool...)
	for guard := 0; guard < 3000 && len(net.pool) > 0; guard++ {
		f := net.pool[0]
		net.pool = net.pool[1:]
		net.deliverFlight(f)
	}
	return net
}

// drainExcept delivers everything in flight (FIFO) except messages of the given Go type
func (net *Net) drainExcept(skipType string) {
	for guard := 0; guard < 3000 && len(net.pool) > 0; guard++ {
		f := net.pool[0]
		net.pool = net.pool[1:]
		if skipType != "" && fmt.Sprintf("%T", interfaces.ToConsensusMessage(f.Raw)) == skipType {
			continue
		}
		net.deliverFlight(f)
	}
}

// proof-mutation-sweep: every rejection branch of the prepared-proof / vote validation, once per run.
// The Byzantine leader of view 0 proposes, the correct members become prepared, COMMITs are lost, everybody
// times out; the correct leader of view 1 then receives the Byzantine member's VIEW_CHANGE carrying the genuine
// proof of view 0 with exactly one aspect changed (each signature the adversary owns is re-made over the changed
// bytes, so that the check in question is the one that fires), and finally the unchanged one.
func scenarioProofMutationSweep(c *Ctx) *Net {
	net := NewNet(c, NetOpts{N: 4, Weights: []uint64{1, 1, 1, 1}, ByzIdx: []int{0}, Inst: 100}, "proof-mutation-sweep n=4 byz=[0]")
	net.start()
	a := net.adv
	inst, h := uint64(100), uint64(1)
	byz := memberId(0)
	blk := a.newBlock(h, false)
	a.toAll(a.mkPP(byz, inst, h, 0, blk), "byz-pp")
	net.drainExcept("*interfaces.CommitMessage")
	for _, n := range net.order {
		net.timeout(n, false)
	}
	// only one correct member's vote reaches the leader of view 1 for now: it is not elected yet
	var held []*Flight
	gotOne := false
	for _, f := range net.pool {
		if !gotOne && string(f.From) == string(memberId(2)) {
			gotOne = true
			net.deliverFlight(f)
		} else {
			held = append(held, f)
		}
	}
	net.pool = nil
	defer func() {
		net.pool = append(held, net.pool...)
		net.drainExcept("")
	}()
	ldr, ok := net.nodes[string(memberId(1))]
	if p0, _ := a.genuineProof(h, 0); !ok || p0 == nil || len(p0.PrepareSenders) < 2 {
		c.Class("scenario/proof-mutation-sweep/not-reached")
		return net
	}
	resignPP := func(p *protocol.PreparedProofBuilder, key []byte) {
		p.PreprepareSender = a.senderB(key, uint64(p.PreprepareBlockRef.BlockHeight), p.PreprepareBlockRef.Build().Raw())
	}
	type mut struct {
		name string
		f    func(p *protocol.PreparedProofBuilder)
	}
	muts := []mut{
		{"pp-height", func(p *protocol.PreparedProofBuilder) { p.PreprepareBlockRef.BlockHeight = 2; resignPP(p, byz) }},
		{"pp-view-not-below-target", func(p *protocol.PreparedProofBuilder) {
			p.PreprepareBlockRef.View, p.PrepareBlockRef.View = 1, 1
			resignPP(p, byz)
		}},
		{"pp-sender-not-leader", func(p *protocol.PreparedProofBuilder) { resignPP(p, a.outsiders[0]) }},
		{"pp-bad-signature", func(p *protocol.PreparedProofBuilder) {
			sig := append([]byte{}, p.PreprepareSender.Signature...)
			sig[0] ^= 1
			p.PreprepareSender = &protocol.SenderSignatureBuilder{MemberId: p.PreprepareSender.MemberId, Signature: sig}
		}},
		{"p-height", func(p *protocol.PreparedProofBuilder) { p.PrepareBlockRef.BlockHeight = 2 }},
		{"p-view", func(p *protocol.PreparedProofBuilder) { p.PrepareBlockRef.View = 5 }},
		{"p-hash", func(p *protocol.PreparedProofBuilder) { p.PrepareBlockRef.BlockHash = []byte{1, 2, 3} }},
		{"leader-among-preparers", func(p *protocol.PreparedProofBuilder) {
			p.PrepareSenders = append(p.PrepareSenders, a.senderB(byz, h, p.PrepareBlockRef.Build().Raw()))
		}},
		{"duplicate-preparer", func(p *protocol.PreparedProofBuilder) { p.PrepareSenders = append(p.PrepareSenders, p.PrepareSenders[0]) }},
		{"outsider-preparer", func(p *protocol.PreparedProofBuilder) {
			p.PrepareSenders = append(p.PrepareSenders, a.senderB(a.outsiders[0], h, p.PrepareBlockRef.Build().Raw()))
		}},
		{"bad-preparer-signature", func(p *protocol.PreparedProofBuilder) {
			s0 := p.PrepareSenders[0]
			sig := append([]byte{}, s0.Signature...)
			sig[len(sig)-1] ^= 1
			p.PrepareSenders[0] = &protocol.SenderSignatureBuilder{MemberId: s0.MemberId, Signature: sig}
		}},
		{"below-quorum", func(p *protocol.PreparedProofBuilder) { p.PrepareSenders = p.PrepareSenders[:1] }},
		{"no-preparers", func(p *protocol.PreparedProofBuilder) { p.PrepareSenders = nil }},
		{"proof-other-instance", func(p *protocol.PreparedProofBuilder) {
			p.PreprepareBlockRef.InstanceId, p.PrepareBlockRef.InstanceId = 7, 7
			resignPP(p, byz)
		}},
		// the signatures over a foreign-instance reference are ones the same members could have issued in that instance (same keys)
		{"p-ref-other-instance-resigned", func(p *protocol.PreparedProofBuilder) {
			p.PrepareBlockRef.InstanceId = 1100
			for i, s0 := range p.PrepareSenders {
				p.PrepareSenders[i] = a.senderB(s0.MemberId, h, p.PrepareBlockRef.Build().Raw())
			}
		}},
		{"pp-ref-other-instance-resigned", func(p *protocol.PreparedProofBuilder) {
			p.PreprepareBlockRef.InstanceId = 1100
			resignPP(p, byz)
		}},
		{"both-refs-other-instance-resigned", func(p *protocol.PreparedProofBuilder) {
			p.PreprepareBlockRef.InstanceId, p.PrepareBlockRef.InstanceId = 1100, 1100
			resignPP(p, byz)
			for i, s0 := range p.PrepareSenders {
				p.PrepareSenders[i] = a.senderB(s0.MemberId, h, p.PrepareBlockRef.Build().Raw())
			}
		}},
		{"proof-ref-types", func(p *protocol.PreparedProofBuilder) {
			p.PreprepareBlockRef.MessageType = protocol.LEAN_HELIX_PREPARE
			resignPP(p, byz)
		}},
		{"proof-prepare-ref-type", func(p *protocol.PreparedProofBuilder) { p.PrepareBlockRef.MessageType = protocol.LEAN_HELIX_COMMIT }},
	}
	for _, m := range muts {
		p, pb := a.genuineProof(h, 0)
		m.f(p)
		a.inject(ldr, a.mkVC(a.vcContent(byz, protocol.LEAN_HELIX_VIEW_CHANGE, inst, h, 1, p), pb), "sweep-vc-"+m.name)
	}
	// header aspects
	{
		p, pb := a.genuineProof(h, 0)
		a.inject(ldr, a.mkVC(a.vcContent(byz, protocol.LEAN_HELIX_NEW_VIEW, inst, h, 1, p), pb), "sweep-vc-header-type")
		p, pb = a.genuineProof(h, 0)
		a.inject(ldr, a.mkVC(a.vcContent(a.outsiders[0], protocol.LEAN_HELIX_VIEW_CHANGE, inst, h, 1, p), pb), "sweep-vc-outsider")
		p, _ = a.genuineProof(h, 0)
		a.inject(ldr, a.mkVC(a.vcContent(byz, protocol.LEAN_HELIX_VIEW_CHANGE, inst, h, 1, p), nil), "sweep-vc-no-block")
		p, _ = a.genuineProof(h, 0)
		a.inject(ldr, a.mkVC(a.vcContent(byz, protocol.LEAN_HELIX_VIEW_CHANGE, inst, h, 1, p), a.newBlock(h, false)), "sweep-vc-other-block")
		// and the unchanged vote
		p, pb = a.genuineProof(h, 0)
		a.inject(ldr, a.mkVC(a.vcContent(byz, protocol.LEAN_HELIX_VIEW_CHANGE, inst, h, 1, p), pb), "sweep-vc-genuine")
	}
	return net
}

// newview-mutation-sweep: every rejection branch of the NEW_VIEW validation, once per run.  The correct leader of
// view 0 proposes, the correct members become prepared, COMMITs are lost, everybody times out towards the
// Byzantine leader of view 1, who then sends NEW_VIEWs that are by the book except for one aspect, and finally
// the one that is by the book.
func scenarioNewViewMutationSweep(c *Ctx) *Net {
	net := NewNet(c, NetOpts{N: 4, Weights: []uint64{1, 1, 1, 1}, ByzIdx: []int{1}, Inst: 100}, "newview-mutation-sweep n=4 byz=[1]")
	net.start()
	a := net.adv
	inst, h, nv := uint64(100), uint64(1), uint64(1)
	byz := memberId(1)
	net.drainExcept("*interfaces.CommitMessage")
	for _, n := range net.order {
		net.timeout(n, false)
	}
	net.pool = nil // the votes went to the Byzantine leader (it has seen them)
	hash, blk, _ := a.highestSeenLock(h, nv)
	if hash == nil || blk == nil || len(a.genuineVotes(h, nv, false, nil)) < 3 {
		c.Class("scenario/newview-mutation-sweep/not-reached")
		return net
	}
	goodPP := func() *protocol.PreprepareContentBuilder { return a.ppContent(byz, protocol.LEAN_HELIX_PREPREPARE, inst, h, nv, hash) }
	genuine := func() []*protocol.ViewChangeMessageContentBuilder { return a.genuineVotes(h, nv, false, nil) }
	proof := func() *protocol.PreparedProofBuilder { p, _ := a.genuineProof(h, 0); return p }
	send := func(name string, votes []*protocol.ViewChangeMessageContentBuilder, pp *protocol.PreprepareContentBuilder, b *FakeBlock) {
		a.toAll(a.mkNV(byz, protocol.LEAN_HELIX_NEW_VIEW, inst, h, nv, votes, pp, b), "sweep-nv-"+name)
	}
	send("vote-height", append(genuine(), a.vcContent(byz, protocol.LEAN_HELIX_VIEW_CHANGE, inst, 2, nv, nil)), goodPP(), blk)
	send("vote-view", append(genuine(), a.vcContent(byz, protocol.LEAN_HELIX_VIEW_CHANGE, inst, h, nv+1, nil)), goodPP(), blk)
	send("vote-duplicate", append(genuine(), genuine()[0]), goodPP(), blk)
	send("vote-type", append(genuine(), a.vcContent(byz, protocol.LEAN_HELIX_NEW_VIEW, inst, h, nv, nil)), goodPP(), blk)
	send("vote-instance", append(genuine(), a.vcContent(byz, protocol.LEAN_HELIX_VIEW_CHANGE, inst+1, h, nv, nil)), goodPP(), blk)
	send("vote-outsider", append(genuine(), a.vcContent(a.outsiders[0], protocol.LEAN_HELIX_VIEW_CHANGE, inst, h, nv, nil)), goodPP(), blk)
	{
		p := proof()
		if p != nil {
			p.PreprepareBlockRef.InstanceId, p.PrepareBlockRef.InstanceId = 7, 7
			send("vote-proof-instance", append(genuine(), a.vcContent(byz, protocol.LEAN_HELIX_VIEW_CHANGE, inst, h, nv, p)), goodPP(), blk)
		}
		p = proof()
		if p != nil {
			p.PrepareBlockRef.MessageType = protocol.LEAN_HELIX_COMMIT
			send("vote-proof-types", append(genuine(), a.vcContent(byz, protocol.LEAN_HELIX_VIEW_CHANGE, inst, h, nv, p)), goodPP(), blk)
		}
		p = proof()
		if p != nil && len(p.PrepareSenders) > 0 {
			p.PrepareSenders = append(p.PrepareSenders, p.PrepareSenders[0])
			send("vote-proof-duplicate-preparer", append(genuine(), a.vcContent(byz, protocol.LEAN_HELIX_VIEW_CHANGE, inst, h, nv, p)), goodPP(), blk)
		}
	}
	send("below-quorum", genuine()[:2], goodPP(), blk)
	send("pp-view", genuine(), a.ppContent(byz, protocol.LEAN_HELIX_PREPREPARE, inst, h, nv+1, hash), blk)
	send("pp-height", genuine(), a.ppContent(byz, protocol.LEAN_HELIX_PREPREPARE, inst, h+1, nv, hash), blk)
	send("pp-instance", genuine(), a.ppContent(byz, protocol.LEAN_HELIX_PREPREPARE, inst+1, h, nv, hash), blk)
	send("pp-type", genuine(), a.ppContent(byz, protocol.LEAN_HELIX_PREPARE, inst, h, nv, hash), blk)
	send("pp-by-outsider", genuine(), a.ppContent(a.outsiders[0], protocol.LEAN_HELIX_PREPREPARE, inst, h, nv, hash), blk)
	{
		forged := goodPP()
		forged.Sender = &protocol.SenderSignatureBuilder{MemberId: byz, Signature: []byte("not-the-leaders-signature")}
		send("pp-forged-signature", genuine(), forged, blk)
	}
	send("no-block", genuine(), goodPP(), nil)
	{
		// the lock is there (a genuine proof among the votes) but the embedded proposal names ANOTHER hash: without a block, and with that hash's own block
		bad := a.newBlock(h, false)
		send("no-block-other-hash", genuine(), a.ppContent(byz, protocol.LEAN_HELIX_PREPREPARE, inst, h, nv, blockHash(bad)), nil)
		send("other-hash-its-block", genuine(), a.ppContent(byz, protocol.LEAN_HELIX_PREPREPARE, inst, h, nv, blockHash(bad)), bad)
	}
	a.toAll(a.mkNV(byz, protocol.LEAN_HELIX_VIEW_CHANGE, inst, h, nv, genuine(), goodPP(), blk), "sweep-nv-header-type")
	a.toAll(a.mkNV(a.outsiders[0], protocol.LEAN_HELIX_NEW_VIEW, inst, h, nv, genuine(), goodPP(), blk), "sweep-nv-sender-not-leader")
	send("genuine", genuine(), goodPP(), blk)
	net.drainExcept("")
	return net
}

// nv-wrong-block: all correct members accept the proposal of view 0 and become prepared on it; the
// COMMITs are lost and everybody times out.  The Byzantine leader of view 1 sends a NEW_VIEW that is by
// the book in everything that is signed (genuine votes with their proofs, proposal signed over the
// proven hash) but attaches another block.  The members already hold the proven block of the proven view.
func scenarioNewViewWrongBlock(c *Ctx) *Net {
	net := NewNet(c, NetOpts{N: 4, Weights: []uint64{1, 1, 1, 1}, ByzIdx: []int{1}, Inst: 100}, "nv-wrong-block n=4 byz=[1]")
	net.start()
	a := net.adv
	typ := func(f *Flight) string { return fmt.Sprintf("%T", interfaces.ToConsensusMessage(f.Raw)) }
	// view 0: proposals and PREPAREs are delivered, COMMITs are lost
	for guard := 0; guard < 2000 && len(net.pool) > 0; guard++ {
		f := net.pool[0]
		net.pool = net.pool[1:]
		if typ(f) == "*interfaces.CommitMessage" {
			continue
		}
		net.deliverFlight(f)
	}
	for _, n := range net.order {
		net.timeout(n, false)
	}
	net.pool = nil // the votes for view 1 went to the Byzantine leader (it has seen them)
	if !a.nvWrongBlock(1, 1) {
		c.Class("scenario/nv-wrong-block/not-reached")
	}
	for guard := 0; guard < 2000 && len(net.pool) > 0; guard++ {
		f := net.pool[0]
		net.pool = net.pool[1:]
		net.deliverFlight(f)
	}
	return net
}

// nv-foreign-embedded-proposal: the Byzantine leader of view 1 sends a NEW_VIEW that is by the book
// except that the PREPREPARE embedded in it names another instance id (its signature covers exactly
// that reference). The correct members adopt it, become prepared, time out and send their
// VIEW_CHANGE — with the proof extracted from that proposal — to the correct leader of view 2.
func scenarioForeignEmbeddedProposal(c *Ctx) *Net {
	net := NewNet(c, NetOpts{N: 4, Weights: []uint64{1, 1, 1, 1}, ByzIdx: []int{1}, Inst: 100}, "nv-foreign-embedded-proposal n=4 byz=[1]")
	net.start()
	a := net.adv
	typ := func(f *Flight) string { return fmt.Sprintf("%T", interfaces.ToConsensusMessage(f.Raw)) }
	net.pool = nil // the proposal of view 0 reaches nobody
	for _, n := range net.order {
		net.timeout(n, false)
	}
	net.pool = nil // votes for view 1 went to the Byzantine leader (it has seen them)
	blk := a.newBlock(1, false)
	votes := a.genuineVotes(1, 1, true, nil)
	pp := a.ppContent(memberId(1), protocol.LEAN_HELIX_PREPREPARE, 999, 1, 1, blockHash(blk)) // another instance id inside the embedded proposal
	a.toAll(a.mkNV(memberId(1), protocol.LEAN_HELIX_NEW_VIEW, 100, 1, 1, votes, pp, blk), "nv-embedded-pp-foreign-instance")
	// PREPAREs are delivered (the members become prepared), COMMITs are not
	var rest []*Flight
	for _, f := range net.pool {
		if typ(f) == "*interfaces.PrepareMessage" {
			net.deliverFlight(f)
		}
	}
	net.pool = rest
	for _, n := range net.order {
		net.timeout(n, false)
	}
	for len(net.pool) > 0 {
		f := net.pool[0]
		net.pool = net.pool[1:]
		if typ(f) == "*interfaces.ViewChangeMessage" {
			net.deliverFlight(f)
		}
	}
	return net
}


// commit-while-sync-pending: the main loop of one member has accepted a node sync for a block two
// heights ahead (contexts older than that are cancelled) but its worker has not taken the block yet;
// meanwhile the worker completes the commit of its current height, so the next round is refused;
// traffic of the next height must go to the future cache, not to the term still installed; then
// the sync arrives.
func scenarioCommitWhileSyncPending(c *Ctx) *Net {
	net := NewNet(c, NetOpts{N: 4, Weights: []uint64{1, 1, 1, 1}, Inst: 100}, "commit-while-sync-pending n=4")
	net.start()
	typ := func(f *Flight) string { return fmt.Sprintf("%T", interfaces.ToConsensusMessage(f.Raw)) }
	deliverAll := func(kind string) {
		pool := net.pool
		net.pool = nil
		var keep []*Flight
		for _, f := range pool {
			if typ(f) == kind {
				net.deliverFlight(f)
			} else {
				keep = append(keep, f)
			}
		}
		net.pool = append(keep, net.pool...)
	}
	deliverAll("*interfaces.PreprepareMessage")
	deliverAll("*interfaces.PrepareMessage")
	lag := net.order[3]
	// the other three decide height 1; the laggard gets none of the COMMITs
	pool := net.pool
	net.pool = nil
	for _, f := range pool {
		if string(f.To) != string(lag.Id) {
			net.deliverFlight(f)
		}
	}
	// two syncs are on their way to the laggard: block 1 is still in the worker's channel when the main
	// loop accepts block 3 and cancels everything older than (4, 0)
	net.event(lag, "cancel 4 0", func() (string, string) { return lag.CancelAhead(3) })
	net.sync(lag, 1)                            // the round of height 2 is refused: its context is already stale
	deliverAll("*interfaces.PreprepareMessage") // height 2 proposal: must not reach the term of height 1
	deliverAll("*interfaces.PrepareMessage")
	deliverAll("*interfaces.CommitMessage")
	net.sync(lag, 3)
	deliverAll("*interfaces.PreprepareMessage")
	return net
}


// two-block-proof: the Byzantine leader of view 1 gets the correct members to prepare block B in
// its view, then votes for view 2 with a "proof" whose PREPREPARE reference (its own signature)
// names a block A that every correct consumer rejects while the PREPARE signatures are the genuine
// ones for B; it votes first, so a leader that counts this vote may re-propose A.
func scenarioTwoBlockProof(c *Ctx) *Net {
	net := NewNet(c, NetOpts{N: 4, Weights: []uint64{1, 1, 1, 1}, ByzIdx: []int{1}, Inst: 100}, "two-block-proof n=4 byz=[1]")
	net.start()
	a := net.adv
	inst := uint64(100)
	typ := func(f *Flight) string { return fmt.Sprintf("%T", interfaces.ToConsensusMessage(f.Raw)) }
	net.pool = nil
	for _, n := range net.order {
		net.timeout(n, false)
	}
	net.pool = nil
	b := a.newBlock(1, false)
	votes := a.genuineVotes(1, 1, true, nil)
	pp := a.ppContent(memberId(1), protocol.LEAN_HELIX_PREPREPARE, inst, 1, 1, blockHash(b))
	a.toAll(a.mkNV(memberId(1), protocol.LEAN_HELIX_NEW_VIEW, inst, 1, 1, votes, pp, b), "nv-by-the-book")
	net.pool = nil // PREPAREs for B are on the wire (seen) but reach nobody; nobody is prepared
	proof, _ := a.genuineProof(1, 1)
	if proof == nil || len(proof.PrepareSenders) == 0 {
		c.Class("scenario/two-block-proof/not-reached")
		return net
	}
	bad := a.newBlock(1, true) // a block every correct consumer rejects
	ppref := a.refB(protocol.LEAN_HELIX_PREPREPARE, inst, 1, 1, blockHash(bad))
	proof.PreprepareBlockRef = ppref
	proof.PreprepareSender = a.senderB(memberId(1), 1, ppref.Build().Raw())
	// the forged vote arrives first at the correct leader of view 2, then everybody times out and votes
	if n, ok := net.nodes[string(memberId(2))]; ok {
		a.inject(n, a.mkVC(a.vcContent(memberId(1), protocol.LEAN_HELIX_VIEW_CHANGE, inst, 1, 2, proof), bad), "vc-proof-two-blocks")
	}
	for _, n := range net.order {
		net.timeout(n, false)
	}
	// everything else is delivered in order: votes, the NEW_VIEW of view 2, PREPAREs, COMMITs
	for k := 0; len(net.pool) > 0 && k < 400; k++ {
		f := net.pool[0]
		net.pool = net.pool[1:]
		_ = typ
		net.deliverFlight(f)
	}
	return net
}


// late-commit-after-later-proposal: a correct member stored the proposal X of view 0 but saw no
// PREPAREs; it times out, takes the stand-alone proposal Y of the Byzantine leader of view 1
// (known finding D5 allows that for an unlocked node), and then the delayed COMMIT quorum for
// (view 0, X) arrives: it must commit X with a proof for X.
func scenarioLateCommitAfterLaterProposal(c *Ctx) *Net {
	net := NewNet(c, NetOpts{N: 4, Weights: []uint64{1, 1, 1, 1}, ByzIdx: []int{1}, Inst: 100}, "late-commit-after-later-proposal n=4 byz=[1]")
	net.start()
	a := net.adv
	inst := uint64(100)
	typ := func(f *Flight) string { return fmt.Sprintf("%T", interfaces.ToConsensusMessage(f.Raw)) }
	late := net.nodes[string(memberId(3))]
	var hash []byte
	pool := net.pool
	net.pool = nil
	for _, f := range pool { // the proposal of view 0 reaches every correct member
		if typ(f) == "*interfaces.PreprepareMessage" {
			hash = interfaces.ToConsensusMessage(f.Raw).(*interfaces.PreprepareMessage).Content().SignedHeader().BlockHash()
			net.deliverFlight(f)
		}
	}
	pool = net.pool
	net.pool = nil
	for _, f := range pool { // PREPAREs reach everybody but the late member
		if typ(f) == "*interfaces.PrepareMessage" && string(f.To) != string(late.Id) {
			net.deliverFlight(f)
		}
	}
	held := net.pool // COMMITs of the two prepared members
	net.pool = nil
	if hash == nil || late == nil {
		c.Class("scenario/late-commit/not-reached")
		return net
	}
	net.timeout(late, false)
	net.pool = nil
	y := a.newBlock(1, false)
	a.inject(late, a.mkPP(memberId(1), inst, 1, 1, y), "bare-pp-gt0")
	net.pool = nil
	for _, f := range held {
		if typ(f) == "*interfaces.CommitMessage" && string(f.To) == string(late.Id) {
			net.deliverFlight(f)
		}
	}
	a.inject(late, a.mkC(memberId(1), protocol.LEAN_HELIX_COMMIT, inst, 1, 0, hash), "byz-commit")
	return net
}


// newview-validated-during-own-timeout: three members time out and elect the leader of view 1; its
// NEW_VIEW (fresh block) reaches the fourth member, still in view 0, and while that member's consumer
// validates the block the main loop handles the member's own election trigger for view 0
// (CancelOlderThan (h, 1)): the validation runs for view 1, so its context must stay live and the
// member must adopt the NEW_VIEW.
func scenarioNewViewValidatedDuringOwnTimeout(c *Ctx) *Net {
	net := NewNet(c, NetOpts{N: 4, Weights: []uint64{1, 1, 1, 1}, Inst: 100}, "newview-validated-during-own-timeout n=4")
	net.start()
	typ := func(f *Flight) string { return fmt.Sprintf("%T", interfaces.ToConsensusMessage(f.Raw)) }
	net.pool = nil // the proposal of view 0 reaches nobody
	slow := net.order[3]
	for _, n := range net.order[:3] {
		net.timeout(n, false)
	}
	for len(net.pool) > 0 { // votes reach the leader of view 1, which is elected and sends its NEW_VIEW
		f := net.pool[0]
		net.pool = net.pool[1:]
		if typ(f) == "*interfaces.ViewChangeMessage" {
			net.deliverFlight(f)
		} else if typ(f) == "*interfaces.NewViewMessage" && string(f.To) == string(slow.Id) {
			slow.CancelDuring = 1
			net.deliverFlight(f)
			slow.CancelDuring = 0
		}
	}
	return net
}

// vote-with-block-without-proof: a Byzantine member votes for view 1 with a block attached but no
// prepared proof; the correct leader of view 1 must not count that vote (and so must not re-propose
// that block); with the correct members' votes it is elected and requests a fresh proposal.
func scenarioVoteWithBlockWithoutProof(c *Ctx) *Net {
	net := NewNet(c, NetOpts{N: 4, Weights: []uint64{1, 1, 1, 1}, ByzIdx: []int{3}, Inst: 100}, "vote-with-block-without-proof n=4 byz=[3]")
	net.start()
	a := net.adv
	net.pool = nil
	if n, ok := net.nodes[string(memberId(1))]; ok {
		a.inject(n, a.mkVC(a.vcContent(memberId(3), protocol.LEAN_HELIX_VIEW_CHANGE, 100, 1, 1, nil), a.newBlock(1, false)), "vc-block-without-proof")
	}
	for _, n := range net.order {
		net.timeout(n, false)
	}
	for k := 0; len(net.pool) > 0 && k < 200; k++ {
		f := net.pool[0]
		net.pool = net.pool[1:]
		net.deliverFlight(f)
	}
	return net
}
