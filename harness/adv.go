package main

// Adversary plays the Byzantine members (and outsiders with valid keys). It knows the Byzantine
// secrets and everything ever sent (it may replay any signature seen on the wire).
type Adversary struct {
	net *Net
}

func NewAdversary(net *Net) *Adversary { return &Adversary{net: net} }

func (a *Adversary) act() {
	net := a.net
	// replay of old traffic to a random correct node
	if len(net.seen) == 0 {
		return
	}
	s := net.seen[net.r.Intn(len(net.seen))]
	n := net.order[net.r.Intn(len(net.order))]
	net.c.Class("adv/replay")
	net.deliverFlight(&Flight{To: n.Id, From: s.From, Raw: s.Raw, Byz: true})
}
