package main

import (
	"fmt"

	"github.com/orbs-network/lean-helix-go/services/interfaces"
	"github.com/orbs-network/lean-helix-go/services/randomseed"
	"github.com/orbs-network/lean-helix-go/spec/types/go/primitives"
	"github.com/orbs-network/lean-helix-go/spec/types/go/protocol"
)

// Adversary plays the Byzantine committee members and outsiders with valid keys. It owns their
// secrets, sees everything ever sent (and may replay any signature seen on the wire), and may use
// the honest keys ONLY to sign payloads of a different instance (correct nodes of other instances
// sign with the same keys) — every call site that does so passes a foreign instance id.
type Adversary struct {
	net       *Net
	km        *FakeKeyManager
	byzIds    [][]byte
	outsiders [][]byte
	nextBlock uint64
	BadBlocks map[uint64]bool // blocks every correct consumer rejects
	own       []*interfaces.ConsensusRawMessage
	pad       bool // next PREPARE / COMMIT / VIEW_CHANGE headers get trailing bytes
	padSlack  bool // ... or (block references only) non-zero bytes in the alignment slack, same length
	planned   map[string]*FakeBlock // (height, view) -> the block a Byzantine leader announced early by its own PREPARE
}

func NewAdversary(net *Net) *Adversary {
	a := &Adversary{net: net, km: &FakeKeyManager{w: net.w}, BadBlocks: map[uint64]bool{}, planned: map[string]*FakeBlock{}}
	for _, m := range net.members {
		if net.byz[string(m.Id)] {
			a.byzIds = append(a.byzIds, m.Id)
		}
	}
	for i := 0; i < 2; i++ {
		a.outsiders = append(a.outsiders, outsiderId(i))
	}
	return a
}

// ---- message construction with arbitrary field values

func (a *Adversary) refB(t protocol.MessageType, inst, h, v uint64, hash []byte) *protocol.BlockRefBuilder {
	return &protocol.BlockRefBuilder{MessageType: t, InstanceId: primitives.InstanceId(inst), BlockHeight: primitives.BlockHeight(h), View: primitives.View(v), BlockHash: hash}
}

func (a *Adversary) sign(key []byte, h uint64, raw []byte) []byte { return a.km.SignAs(key, h, raw) }

func (a *Adversary) senderB(key []byte, h uint64, raw []byte) *protocol.SenderSignatureBuilder {
	return &protocol.SenderSignatureBuilder{MemberId: key, Signature: a.sign(key, h, raw)}
}

func (a *Adversary) ppContent(key []byte, t protocol.MessageType, inst, h, v uint64, hash []byte) *protocol.PreprepareContentBuilder {
	ref := a.refB(t, inst, h, v, hash)
	return &protocol.PreprepareContentBuilder{SignedHeader: ref, Sender: a.senderB(key, h, ref.Build().Raw())}
}

func (a *Adversary) mkPP(key []byte, inst, h, v uint64, b *FakeBlock) *interfaces.ConsensusRawMessage {
	var blk interfaces.Block
	var hash []byte
	if b != nil {
		blk, hash = b, blockHash(b)
	}
	return interfaces.NewPreprepareMessage(a.ppContent(key, protocol.LEAN_HELIX_PREPREPARE, inst, h, v, hash).Build(), blk).ToConsensusRawMessage()
}

// padRef: with a.pad set, the signed header gets four trailing bytes inside its own size: every
// accessor reads the same field values, the (Byzantine) sender's signature covers exactly those
// bytes, but they are not the bytes the builders produce from the field values.
func (a *Adversary) padRef(ref *protocol.BlockRefBuilder) (*protocol.BlockRefBuilder, []byte) {
	raw := ref.Build().Raw()
	if a.pad {
		if a.padSlack {
			// same length: bytes the readers skip (alignment padding) become non-zero
			if alt := slackBytes(raw); alt != nil {
				return protocol.BlockRefBuilderFromRaw(alt), alt
			}
		}
		raw = append(append([]byte{}, raw...), 0, 0, 0, 0)
		return protocol.BlockRefBuilderFromRaw(raw), raw
	}
	return ref, raw
}

// slackBytes: a copy of a block reference in which every byte that no accessor reads is set to a
// non-zero value (found by probing: a byte is slack if changing it changes no field value); nil if there is none
func slackBytes(raw []byte) []byte {
	fields := func(b []byte) (s string, ok bool) {
		defer func() {
			if recover() != nil {
				ok = false
			}
		}()
		r := protocol.BlockRefReader(b)
		return fmt.Sprintf("%d|%d|%d|%d|%x", r.MessageType(), r.InstanceId(), r.BlockHeight(), r.View(), []byte(r.BlockHash())), true
	}
	want, ok := fields(raw)
	if !ok {
		return nil
	}
	out := append([]byte{}, raw...)
	changed := false
	for i := range raw {
		probe := append([]byte{}, raw...)
		probe[i] ^= 0x5a
		if got, ok := fields(probe); ok && got == want {
			out[i] = raw[i] ^ 0x5a
			if got2, ok2 := fields(out); ok2 && got2 == want {
				changed = true
			} else {
				out[i] = raw[i]
			}
		}
	}
	if !changed {
		return nil
	}
	return out
}

func (a *Adversary) mkP(key []byte, t protocol.MessageType, inst, h, v uint64, hash []byte) *interfaces.ConsensusRawMessage {
	ref, raw := a.padRef(a.refB(t, inst, h, v, hash))
	c := &protocol.PrepareContentBuilder{SignedHeader: ref, Sender: a.senderB(key, h, raw)}
	return interfaces.NewPrepareMessage(c.Build()).ToConsensusRawMessage()
}

func (a *Adversary) share(key []byte, h uint64) []byte {
	return a.km.shareAs(key, h, randomseed.RandomSeedToBytes(a.net.w.SeedFor(h)))
}

func (a *Adversary) mkC(key []byte, t protocol.MessageType, inst, h, v uint64, hash []byte) *interfaces.ConsensusRawMessage {
	ref, raw := a.padRef(a.refB(t, inst, h, v, hash))
	c := &protocol.CommitContentBuilder{SignedHeader: ref, Sender: a.senderB(key, h, raw), Share: a.share(key, h)}
	return interfaces.NewCommitMessage(c.Build()).ToConsensusRawMessage()
}

func (a *Adversary) vcContent(key []byte, t protocol.MessageType, inst, h, v uint64, proof *protocol.PreparedProofBuilder) *protocol.ViewChangeMessageContentBuilder {
	hdr := &protocol.ViewChangeHeaderBuilder{MessageType: t, InstanceId: primitives.InstanceId(inst), BlockHeight: primitives.BlockHeight(h), View: primitives.View(v), PreparedProof: proof}
	raw := hdr.Build().Raw()
	if a.pad {
		raw = append(append([]byte{}, raw...), 0, 0, 0, 0)
		hdr = protocol.ViewChangeHeaderBuilderFromRaw(raw)
	}
	return &protocol.ViewChangeMessageContentBuilder{SignedHeader: hdr, Sender: a.senderB(key, h, raw)}
}

func (a *Adversary) mkVC(c *protocol.ViewChangeMessageContentBuilder, b *FakeBlock) *interfaces.ConsensusRawMessage {
	var blk interfaces.Block
	if b != nil {
		blk = b
	}
	return interfaces.NewViewChangeMessage(c.Build(), blk).ToConsensusRawMessage()
}

func (a *Adversary) mkNV(key []byte, t protocol.MessageType, inst, h, v uint64, votes []*protocol.ViewChangeMessageContentBuilder, pp *protocol.PreprepareContentBuilder, b *FakeBlock) *interfaces.ConsensusRawMessage {
	hdr := &protocol.NewViewHeaderBuilder{MessageType: t, InstanceId: primitives.InstanceId(inst), BlockHeight: primitives.BlockHeight(h), View: primitives.View(v), ViewChangeConfirmations: votes}
	c := &protocol.NewViewMessageContentBuilder{SignedHeader: hdr, Sender: a.senderB(key, h, hdr.Build().Raw()), Message: pp}
	var blk interfaces.Block
	if b != nil {
		blk = b
	}
	return interfaces.NewNewViewMessage(c.Build(), blk).ToConsensusRawMessage()
}

func (a *Adversary) newBlock(h uint64, bad bool) *FakeBlock {
	a.nextBlock++
	b := &FakeBlock{H: h, Id: 7000000 + a.nextBlock}
	if bad {
		a.BadBlocks[b.Id] = true
	}
	return b
}

// ---- knowledge extracted from the wire

type seenMsg struct {
	m    interfaces.ConsensusMessage
	raw  *interfaces.ConsensusRawMessage
	from []byte
}

func (a *Adversary) seen() []seenMsg {
	var r []seenMsg
	for _, s := range a.net.seen {
		r = append(r, seenMsg{interfaces.ToConsensusMessage(s.Raw), s.Raw, s.From})
	}
	for _, raw := range a.own { // what the adversary itself put on the wire
		r = append(r, seenMsg{interfaces.ToConsensusMessage(raw), raw, nil})
	}
	return r
}

// genuineProof assembles, from signatures seen on the wire (plus Byzantine ones), a prepared proof
// for (h, v): the leader's PREPREPARE signature and PREPAREs of distinct non-leaders. Returns nil
// when the wire does not (yet) hold a PREPREPARE of that view.
func (a *Adversary) genuineProof(h, v uint64) (*protocol.PreparedProofBuilder, *FakeBlock) {
	var pp *interfaces.PreprepareMessage
	var ppFromNV *protocol.PreprepareContent
	var blk *FakeBlock
	for _, s := range a.seen() {
		switch m := s.m.(type) {
		case *interfaces.PreprepareMessage:
			if uint64(m.BlockHeight()) == h && uint64(m.View()) == v {
				pp = m
				blk, _ = m.Block().(*FakeBlock)
			}
		case *interfaces.NewViewMessage:
			if uint64(m.BlockHeight()) == h && uint64(m.View()) == v {
				ppFromNV = m.Content().Message()
				blk, _ = m.Block().(*FakeBlock)
			}
		}
	}
	var hdr *protocol.BlockRef
	var snd *protocol.SenderSignature
	if pp != nil {
		hdr, snd = pp.Content().SignedHeader(), pp.Content().Sender()
	} else if ppFromNV != nil {
		hdr, snd = ppFromNV.SignedHeader(), ppFromNV.Sender()
	} else {
		return nil, nil
	}
	var ps []*protocol.SenderSignatureBuilder
	have := map[string]bool{}
	for _, s := range a.seen() {
		if m, ok := s.m.(*interfaces.PrepareMessage); ok && uint64(m.BlockHeight()) == h && uint64(m.View()) == v &&
			string(m.Content().SignedHeader().BlockHash()) == string(hdr.BlockHash()) && !have[string(m.SenderMemberId())] {
			have[string(m.SenderMemberId())] = true
			ps = append(ps, &protocol.SenderSignatureBuilder{MemberId: m.SenderMemberId(), Signature: m.Content().Sender().Signature()})
		}
	}
	pref := a.refB(protocol.LEAN_HELIX_PREPARE, uint64(hdr.InstanceId()), h, v, hdr.BlockHash())
	for _, b := range a.byzIds {
		if !have[string(b)] && string(b) != string(snd.MemberId()) {
			ps = append(ps, a.senderB(b, h, pref.Build().Raw()))
		}
	}
	return &protocol.PreparedProofBuilder{
		PreprepareBlockRef: a.refB(protocol.LEAN_HELIX_PREPREPARE, uint64(hdr.InstanceId()), h, v, hdr.BlockHash()),
		PreprepareSender:   &protocol.SenderSignatureBuilder{MemberId: snd.MemberId(), Signature: snd.Signature()},
		PrepareBlockRef:    pref,
		PrepareSenders:     ps,
	}, blk
}

func (a *Adversary) leaderOf(v uint64) []byte {
	return a.net.members[v%uint64(len(a.net.members))].Id
}

func (a *Adversary) isByz(id []byte) bool { return a.net.byz[string(id)] }

func (a *Adversary) inject(to *RealNode, raw *interfaces.ConsensusRawMessage, op string) {
	a.net.c.Class("adv/" + op)
	if len(a.own) == 0 || a.own[len(a.own)-1] != raw {
		a.own = append(a.own, raw)
	}
	a.net.lastAdvOp = op
	a.net.deliverFlight(&Flight{To: to.Id, From: nil, Raw: raw, Byz: true})
	a.net.lastAdvOp = ""
}

func (a *Adversary) toAll(raw *interfaces.ConsensusRawMessage, op string) {
	for _, n := range a.net.order {
		a.inject(n, raw, op)
	}
}

// votes the adversary can put into a NEW_VIEW for (h, v): genuine VIEW_CHANGEs seen on the wire
// (those addressed to a Byzantine leader) plus Byzantine members' own.
func (a *Adversary) genuineVotes(h, v uint64, withByz bool, byzProof *protocol.PreparedProofBuilder) []*protocol.ViewChangeMessageContentBuilder {
	var vcms []*interfaces.ViewChangeMessage
	have := map[string]bool{}
	for _, s := range a.seen() {
		if m, ok := s.m.(*interfaces.ViewChangeMessage); ok && uint64(m.BlockHeight()) == h && uint64(m.View()) == v && !have[string(m.SenderMemberId())] {
			have[string(m.SenderMemberId())] = true
			vcms = append(vcms, m)
		}
	}
	votes := interfaces.ExtractConfirmationsFromViewChangeMessages(vcms)
	if withByz {
		for _, b := range a.byzIds {
			votes = append(votes, a.vcContent(b, protocol.LEAN_HELIX_VIEW_CHANGE, a.net.w.Inst, h, v, byzProof))
		}
	}
	return votes
}

// highest genuine proof among seen votes for (h, v): returns its hash and block
func (a *Adversary) highestSeenLock(h, v uint64) ([]byte, *FakeBlock, uint64) {
	var hash []byte
	var blk *FakeBlock
	var best uint64
	found := false
	for _, s := range a.seen() {
		if m, ok := s.m.(*interfaces.ViewChangeMessage); ok && uint64(m.BlockHeight()) == h && uint64(m.View()) == v {
			p := m.Content().SignedHeader().PreparedProof()
			if p != nil && len(p.Raw()) > 0 {
				pv := uint64(p.PreprepareBlockRef().View())
				if !found || pv > best {
					found, best = true, pv
					hash = p.PreprepareBlockRef().BlockHash()
					blk, _ = m.Block().(*FakeBlock)
				}
			}
		}
	}
	if !found {
		return nil, nil, 0
	}
	return hash, blk, best
}

// act performs one Byzantine action chosen by the PRNG among those applicable to the current state.
func (a *Adversary) act() {
	net := a.net
	r := net.r
	inst := net.w.Inst
	target := net.order[r.Intn(len(net.order))]
	hv := target.St.HeightView()
	h, v := uint64(hv.Height()), uint64(hv.View())
	if h == 0 {
		return
	}
	byz := a.byzIds[r.Intn(len(a.byzIds))]
	switch r.Intn(28) {
	case 0: // replay old traffic
		if len(net.seen) > 0 {
			s := net.seen[r.Intn(len(net.seen))]
			a.inject(target, s.Raw, "replay")
		}
	case 1: // equivocating leader of the target's view
		if a.isByz(a.leaderOf(v)) {
			x, y := a.newBlock(h, false), a.newBlock(h, false)
			for i, n := range net.order {
				b := x
				if i%2 == 1 {
					b = y
				}
				a.inject(n, a.mkPP(a.leaderOf(v), inst, h, v, b), "equivocate-pp")
			}
			for _, k := range a.byzIds {
				if string(k) != string(a.leaderOf(v)) {
					a.toAll(a.mkP(k, protocol.LEAN_HELIX_PREPARE, inst, h, v, blockHash(x)), "byz-prepare")
					a.toAll(a.mkP(k, protocol.LEAN_HELIX_PREPARE, inst, h, v, blockHash(y)), "byz-prepare")
				}
				a.toAll(a.mkC(k, protocol.LEAN_HELIX_COMMIT, inst, h, v, blockHash(x)), "byz-commit")
				a.toAll(a.mkC(k, protocol.LEAN_HELIX_COMMIT, inst, h, v, blockHash(y)), "byz-commit")
			}
		}
	case 2: // Byzantine PREPARE / COMMIT for whatever hash is on the wire for (h, v); sometimes with a padded signed header
		a.pad = r.Intn(3) == 0
		a.padSlack = r.Intn(2) == 0
		defer func() { a.pad = false; a.padSlack = false }()
		for _, s := range a.seen() {
			if m, ok := s.m.(*interfaces.PreprepareMessage); ok && uint64(m.BlockHeight()) == h && uint64(m.View()) == v {
				hash := m.Content().SignedHeader().BlockHash()
				if string(byz) != string(a.leaderOf(v)) {
					a.toAll(a.mkP(byz, protocol.LEAN_HELIX_PREPARE, inst, h, v, hash), "byz-prepare")
				}
				a.toAll(a.mkC(byz, protocol.LEAN_HELIX_COMMIT, inst, h, v, hash), "byz-commit")
				break
			}
		}
	case 3: // bare PREPREPARE in a view above 0 (no NEW_VIEW)
		if v > 0 && a.isByz(a.leaderOf(v)) {
			a.toAll(a.mkPP(a.leaderOf(v), inst, h, v, a.newBlock(h, r.Intn(3) == 0)), "bare-pp-gt0")
		}
	case 4: // NEW_VIEW whose votes are "from" correct members but signed by the Byzantine leader
		nv := v + uint64(r.Intn(2))
		if nv > 0 && a.isByz(a.leaderOf(nv)) {
			ld := a.leaderOf(nv)
			var votes []*protocol.ViewChangeMessageContentBuilder
			for _, m := range net.members {
				c := a.vcContent(ld, protocol.LEAN_HELIX_VIEW_CHANGE, inst, h, nv, nil)
				c.Sender.MemberId = m.Id // claims to be m, signature made with the leader's key
				votes = append(votes, c)
			}
			b := a.newBlock(h, false)
			pp := a.ppContent(ld, protocol.LEAN_HELIX_PREPREPARE, inst, h, nv, blockHash(b))
			a.toAll(a.mkNV(ld, protocol.LEAN_HELIX_NEW_VIEW, inst, h, nv, votes, pp, b), "nv-forged-votes")
		}
	case 5: // NEW_VIEW with genuine votes but an embedded proposal whose signed hash differs from the proven one
		for nv := v; nv <= v+1; nv++ {
			if nv > 0 && a.isByz(a.leaderOf(nv)) {
				ld := a.leaderOf(nv)
				hash, blk, _ := a.highestSeenLock(h, nv)
				if hash != nil && blk != nil {
					votes := a.genuineVotes(h, nv, true, nil)
					other := a.newBlock(h, false)
					pp := a.ppContent(ld, protocol.LEAN_HELIX_PREPREPARE, inst, h, nv, blockHash(other)) // signed hash of another block
					a.toAll(a.mkNV(ld, protocol.LEAN_HELIX_NEW_VIEW, inst, h, nv, votes, pp, blk), "nv-wrong-hash")
				}
			}
		}
	case 6: // NEW_VIEW by the book from a Byzantine leader (genuine votes, honours the lock) — liveness help
		for nv := v; nv <= v+1; nv++ {
			if nv > 0 && a.isByz(a.leaderOf(nv)) {
				ld := a.leaderOf(nv)
				votes := a.genuineVotes(h, nv, true, nil)
				hash, blk, _ := a.highestSeenLock(h, nv)
				if hash == nil {
					if pb := a.planned[fmt.Sprintf("%d|%d", h, nv)]; pb != nil {
						blk = pb // the block this leader announced by its early PREPARE (case 26)
					} else {
						blk = a.newBlock(h, false)
					}
					hash = blockHash(blk)
				}
				if blk != nil {
					pp := a.ppContent(ld, protocol.LEAN_HELIX_PREPREPARE, inst, h, nv, hash)
					a.toAll(a.mkNV(ld, protocol.LEAN_HELIX_NEW_VIEW, inst, h, nv, votes, pp, blk), "nv-by-the-book")
				}
			}
		}
	case 7: // NEW_VIEW hiding the lock: genuine votes without proofs only + Byzantine votes, fresh block
		for nv := v; nv <= v+1; nv++ {
			if nv > 0 && a.isByz(a.leaderOf(nv)) {
				ld := a.leaderOf(nv)
				all := a.genuineVotes(h, nv, true, nil)
				var votes []*protocol.ViewChangeMessageContentBuilder
				for _, c := range all {
					if c.SignedHeader.PreparedProof == nil {
						votes = append(votes, c)
					}
				}
				b := a.newBlock(h, r.Intn(2) == 0)
				pp := a.ppContent(ld, protocol.LEAN_HELIX_PREPREPARE, inst, h, nv, blockHash(b))
				a.toAll(a.mkNV(ld, protocol.LEAN_HELIX_NEW_VIEW, inst, h, nv, votes, pp, b), "nv-hide-lock")
			}
		}
	case 8: // outsiders with valid keys send PREPARE and COMMIT for the hash on the wire
		for _, s := range a.seen() {
			if m, ok := s.m.(*interfaces.PreprepareMessage); ok && uint64(m.BlockHeight()) == h && uint64(m.View()) == v {
				hash := m.Content().SignedHeader().BlockHash()
				for _, o := range a.outsiders {
					a.toAll(a.mkP(o, protocol.LEAN_HELIX_PREPARE, inst, h, v, hash), "outsider-prepare")
					a.toAll(a.mkC(o, protocol.LEAN_HELIX_COMMIT, inst, h, v, hash), "outsider-commit")
				}
				break
			}
		}
	case 9: // a genuine PREPARE signature re-wrapped as a COMMIT (share copied from any COMMIT of that sender)
		shares := map[string][]byte{}
		for _, s := range a.seen() {
			if m, ok := s.m.(*interfaces.CommitMessage); ok && uint64(m.BlockHeight()) == h {
				shares[string(m.SenderMemberId())] = m.Content().Share()
			}
		}
		for _, s := range a.seen() {
			if m, ok := s.m.(*interfaces.PrepareMessage); ok && uint64(m.BlockHeight()) == h && uint64(m.View()) == v {
				sh, ok := shares[string(m.SenderMemberId())]
				if !ok {
					continue
				}
				hd := m.Content().SignedHeader()
				c := &protocol.CommitContentBuilder{
					SignedHeader: a.refB(hd.MessageType(), uint64(hd.InstanceId()), uint64(hd.BlockHeight()), uint64(hd.View()), hd.BlockHash()),
					Sender:       &protocol.SenderSignatureBuilder{MemberId: m.SenderMemberId(), Signature: m.Content().Sender().Signature()},
					Share:        sh,
				}
				a.toAll(interfaces.NewCommitMessage(c.Build()).ToConsensusRawMessage(), "prepare-rewrapped-as-commit")
			}
		}
	case 10: // VIEW_CHANGE with a genuine proof but without the block, to a correct leader of the next view
		for nv := v; nv <= v+1; nv++ {
			ld := a.leaderOf(nv)
			if nv > 0 && !a.isByz(ld) {
				for pv := uint64(0); pv < nv; pv++ {
					proof, _ := a.genuineProof(h, pv)
					if proof != nil {
						c := a.vcContent(byz, protocol.LEAN_HELIX_VIEW_CHANGE, inst, h, nv, proof)
						if n, ok := net.nodes[string(ld)]; ok {
							a.inject(n, a.mkVC(c, nil), "vc-proof-without-block")
						}
					}
				}
			}
		}
	case 11: // VIEW_CHANGE by the book from a Byzantine member (helps elections)
		for nv := v; nv <= v+1; nv++ {
			ld := a.leaderOf(nv)
			if nv > 0 && !a.isByz(ld) {
				if n, ok := net.nodes[string(ld)]; ok {
					a.inject(n, a.mkVC(a.vcContent(byz, protocol.LEAN_HELIX_VIEW_CHANGE, inst, h, nv, nil), nil), "vc-by-the-book")
				}
			}
		}
	case 12: // a prepared certificate of ANOTHER instance (same keys, same height) offered as a lock
		for nv := v; nv <= v+1; nv++ {
			ld := a.leaderOf(nv)
			if nv > 0 && !a.isByz(ld) {
				foreign := inst + 1000
				bad := a.newBlock(h, true)
				pv := uint64(0)
				ppref := a.refB(protocol.LEAN_HELIX_PREPREPARE, foreign, h, pv, blockHash(bad))
				pref := a.refB(protocol.LEAN_HELIX_PREPARE, foreign, h, pv, blockHash(bad))
				var ps []*protocol.SenderSignatureBuilder
				for _, m := range net.members {
					if string(m.Id) != string(a.leaderOf(pv)) {
						ps = append(ps, a.senderB(m.Id, h, pref.Build().Raw())) // foreign-instance payload: allowed
					}
				}
				proof := &protocol.PreparedProofBuilder{PreprepareBlockRef: ppref, PreprepareSender: a.senderB(a.leaderOf(pv), h, ppref.Build().Raw()), PrepareBlockRef: pref, PrepareSenders: ps}
				c := a.vcContent(byz, protocol.LEAN_HELIX_VIEW_CHANGE, inst, h, nv, proof)
				if n, ok := net.nodes[string(ld)]; ok {
					a.inject(n, a.mkVC(c, bad), "vc-foreign-instance-proof")
				}
			}
		}
	case 13: // Byzantine leader proposes, in view 0 or by NEW_VIEW, a block every correct consumer rejects
		if a.isByz(a.leaderOf(v)) && v == 0 {
			a.toAll(a.mkPP(a.leaderOf(v), inst, h, v, a.newBlock(h, true)), "pp-bad-block")
			for _, k := range a.byzIds {
				_ = k
			}
		}
	case 14: // wrong type tags: a COMMIT-typed header inside a PREPARE envelope and vice versa, signed by a Byzantine member
		for _, s := range a.seen() {
			if m, ok := s.m.(*interfaces.PreprepareMessage); ok && uint64(m.BlockHeight()) == h && uint64(m.View()) == v {
				hash := m.Content().SignedHeader().BlockHash()
				a.toAll(a.mkP(byz, protocol.LEAN_HELIX_COMMIT, inst, h, v, hash), "type-mismatch-prepare")
				a.toAll(a.mkC(byz, protocol.LEAN_HELIX_PREPARE, inst, h, v, hash), "type-mismatch-commit")
				break
			}
		}
	case 15: // NEW_VIEW: a genuine quorum of votes first, then one extra Byzantine vote with a fabricated high-view proof for a block of the leader's choice
		for nv := v; nv <= v+1; nv++ {
			if nv > 0 && a.isByz(a.leaderOf(nv)) {
				ld := a.leaderOf(nv)
				votes := a.genuineVotes(h, nv, false, nil)
				bad := a.newBlock(h, true)
				pv := nv - 1
				ppref := a.refB(protocol.LEAN_HELIX_PREPREPARE, inst, h, pv, blockHash(bad))
				pref := a.refB(protocol.LEAN_HELIX_PREPARE, inst, h, pv, blockHash(bad))
				var ps []*protocol.SenderSignatureBuilder
				for _, m := range net.members {
					if string(m.Id) != string(a.leaderOf(pv)) {
						sb := a.senderB(ld, h, pref.Build().Raw()) // signed with the Byzantine key, whoever it claims to be
						sb.MemberId = m.Id
						ps = append(ps, sb)
					}
				}
				lsig := a.senderB(ld, h, ppref.Build().Raw())
				lsig.MemberId = a.leaderOf(pv)
				forged := &protocol.PreparedProofBuilder{PreprepareBlockRef: ppref, PreprepareSender: lsig, PrepareBlockRef: pref, PrepareSenders: ps}
				votes = append(votes, a.vcContent(ld, protocol.LEAN_HELIX_VIEW_CHANGE, inst, h, nv, forged)) // the forged one last
				pp := a.ppContent(ld, protocol.LEAN_HELIX_PREPREPARE, inst, h, nv, blockHash(bad))
				a.toAll(a.mkNV(ld, protocol.LEAN_HELIX_NEW_VIEW, inst, h, nv, votes, pp, bad), "nv-quorum-plus-forged-lock")
			}
		}
	case 16: // a prepared proof whose PREPREPARE ref (self-signed by a Byzantine leader of a later view) is glued onto genuine PREPARE signatures of an earlier view
		for nv := v; nv <= v+2; nv++ {
			ld := a.leaderOf(nv)
			if nv == 0 {
				continue
			}
			for p2 := uint64(1); p2 < nv; p2++ {
				if !a.isByz(a.leaderOf(p2)) {
					continue
				}
				for p1 := uint64(0); p1 < p2; p1++ {
					proof, blk := a.genuineProof(h, p1)
					if proof == nil || blk == nil {
						continue
					}
					bl := a.leaderOf(p2)
					ppref := a.refB(protocol.LEAN_HELIX_PREPREPARE, inst, h, p2, blockHash(blk)) // claims the later view
					proof.PreprepareBlockRef = ppref
					proof.PreprepareSender = a.senderB(bl, h, ppref.Build().Raw())
					// drop the Byzantine leader's own PREPARE, if present (the leader may not be a prepare sender)
					var ps []*protocol.SenderSignatureBuilder
					for _, s := range proof.PrepareSenders {
						if string(s.MemberId) != string(bl) {
							ps = append(ps, s)
						}
					}
					proof.PrepareSenders = ps
					c := a.vcContent(byz, protocol.LEAN_HELIX_VIEW_CHANGE, inst, h, nv, proof)
					if n, ok := net.nodes[string(ld)]; ok {
						a.inject(n, a.mkVC(c, blk), "vc-proof-view-mismatch")
						return
					}
				}
			}
		}
	case 17: // a COMMIT naming a correct member, with a forged signature and that member's genuine share replayed from another of its COMMITs
		for _, s := range a.seen() {
			m, ok := s.m.(*interfaces.PreprepareMessage)
			if !ok || uint64(m.BlockHeight()) != h || uint64(m.View()) != v {
				continue
			}
			hash := m.Content().SignedHeader().BlockHash()
			for _, mem := range net.members {
				if a.isByz(mem.Id) || string(mem.Id) == string(target.Id) {
					continue
				}
				share := []byte(nil)
				for _, s2 := range a.seen() {
					if cm, ok := s2.m.(*interfaces.CommitMessage); ok && uint64(cm.BlockHeight()) == h && string(cm.SenderMemberId()) == string(mem.Id) {
						share = cm.Content().Share()
					}
				}
				if share == nil {
					continue
				}
				ref := a.refB(protocol.LEAN_HELIX_COMMIT, inst, h, v, hash)
				c := &protocol.CommitContentBuilder{SignedHeader: ref, Sender: &protocol.SenderSignatureBuilder{MemberId: mem.Id, Signature: []byte("forged-signature")}, Share: share}
				a.inject(target, interfaces.NewCommitMessage(c.Build()).ToConsensusRawMessage(), "commit-forged-signature")
			}
			break
		}
	case 18: // Byzantine COMMITs and PREPAREs for ANOTHER hash in the view being decided
		other := a.newBlock(h, false)
		a.toAll(a.mkC(byz, protocol.LEAN_HELIX_COMMIT, inst, h, v, blockHash(other)), "byz-commit-other-hash")
		if string(byz) != string(a.leaderOf(v)) {
			a.toAll(a.mkP(byz, protocol.LEAN_HELIX_PREPARE, inst, h, v, blockHash(other)), "byz-prepare-other-hash")
		}
	case 19, 20: // a prepared proof naming two blocks: genuine PREPARE signatures for the block that was really prepared in a view the Byzantine
		// member led, glued to that leader's own signature over ANOTHER block for the same view; sent as its vote, and as a NEW_VIEW when it leads again
		for pv := uint64(0); pv <= v; pv++ {
			bl := a.leaderOf(pv)
			if !a.isByz(bl) {
				continue
			}
			proof, _ := a.genuineProof(h, pv)
			if proof == nil || len(proof.PrepareSenders) == 0 {
				continue
			}
			other := a.newBlock(h, false)
			ppref := a.refB(protocol.LEAN_HELIX_PREPREPARE, inst, h, pv, blockHash(other))
			proof.PreprepareBlockRef = ppref
			proof.PreprepareSender = a.senderB(bl, h, ppref.Build().Raw())
			for nv := v; nv <= v+2; nv++ {
				if nv <= pv {
					continue
				}
				ld := a.leaderOf(nv)
				if a.isByz(ld) {
					votes := a.genuineVotes(h, nv, false, nil)
					votes = append([]*protocol.ViewChangeMessageContentBuilder{a.vcContent(ld, protocol.LEAN_HELIX_VIEW_CHANGE, inst, h, nv, proof)}, votes...)
					for _, b := range a.byzIds {
						if string(b) != string(ld) {
							votes = append(votes, a.vcContent(b, protocol.LEAN_HELIX_VIEW_CHANGE, inst, h, nv, nil))
						}
					}
					pp := a.ppContent(ld, protocol.LEAN_HELIX_PREPREPARE, inst, h, nv, blockHash(other))
					a.toAll(a.mkNV(ld, protocol.LEAN_HELIX_NEW_VIEW, inst, h, nv, votes, pp, other), "nv-proof-two-blocks")
				} else if n, ok := net.nodes[string(ld)]; ok {
					a.inject(n, a.mkVC(a.vcContent(byz, protocol.LEAN_HELIX_VIEW_CHANGE, inst, h, nv, proof), other), "vc-proof-two-blocks")
				}
			}
			return
		}
	case 21, 22: // a vote that attaches a block but carries no prepared proof (a leader that counts it would re-propose that block)
		for nv := v + 1; nv <= v+2; nv++ {
			ld := a.leaderOf(nv)
			if n, ok := net.nodes[string(ld)]; ok {
				a.inject(n, a.mkVC(a.vcContent(byz, protocol.LEAN_HELIX_VIEW_CHANGE, inst, h, nv, nil), a.newBlock(h, r.Intn(2) == 0)), "vc-block-without-proof")
			}
		}
	case 23: // NEW_VIEW by the book (genuine votes, genuine highest proof, proposal signed over the proven hash) but with ANOTHER block body attached
		a.nvWrongBlock(h, v)
	case 24: // a COMMIT with a genuine header signature whose seed share is a copy of another member's share seen on the wire
		for _, s := range a.seen() {
			if m, ok := s.m.(*interfaces.CommitMessage); ok && uint64(m.BlockHeight()) == h && uint64(m.View()) == v && string(m.SenderMemberId()) != string(byz) {
				hd := m.Content().SignedHeader()
				ref := a.refB(protocol.LEAN_HELIX_COMMIT, inst, h, v, hd.BlockHash())
				cb := &protocol.CommitContentBuilder{SignedHeader: ref, Sender: a.senderB(byz, h, ref.Build().Raw()), Share: m.Content().Share()}
				a.toAll(interfaces.NewCommitMessage(cb.Build()).ToConsensusRawMessage(), "commit-with-another-members-share")
				break
			}
		}
	case 25: // NEW_VIEW whose votes "of" correct members have new content but the signature bytes of votes they cast for another view
		for nv := v; nv <= v+1; nv++ {
			if nv > 0 && a.isByz(a.leaderOf(nv)) {
				ld := a.leaderOf(nv)
				votes := a.genuineVotes(h, nv, true, nil)
				have := map[string]bool{}
				for _, c := range votes {
					have[string(c.Sender.MemberId)] = true
				}
				for _, s := range a.seen() {
					var cs []*protocol.ViewChangeMessageContent
					switch m := s.m.(type) {
					case *interfaces.ViewChangeMessage:
						if uint64(m.BlockHeight()) == h && uint64(m.View()) != nv {
							cs = append(cs, m.Content())
						}
					case *interfaces.NewViewMessage:
						if uint64(m.BlockHeight()) == h && uint64(m.View()) != nv {
							it := m.Content().SignedHeader().ViewChangeConfirmationsIterator()
							for it.HasNext() {
								cs = append(cs, it.NextViewChangeConfirmations())
							}
						}
					}
					for _, c := range cs {
						id := c.Sender().MemberId()
						if !have[string(id)] && !a.isByz(id) {
							have[string(id)] = true
							hdr := &protocol.ViewChangeHeaderBuilder{MessageType: protocol.LEAN_HELIX_VIEW_CHANGE, InstanceId: primitives.InstanceId(inst), BlockHeight: primitives.BlockHeight(h), View: primitives.View(nv)}
							votes = append(votes, &protocol.ViewChangeMessageContentBuilder{SignedHeader: hdr, Sender: &protocol.SenderSignatureBuilder{MemberId: id, Signature: c.Sender().Signature()}})
						}
					}
				}
				b := a.newBlock(h, false)
				pp := a.ppContent(ld, protocol.LEAN_HELIX_PREPREPARE, inst, h, nv, blockHash(b))
				a.toAll(a.mkNV(ld, protocol.LEAN_HELIX_NEW_VIEW, inst, h, nv, votes, pp, b), "nv-votes-with-replayed-signatures")
			}
		}
	case 26: // the Byzantine leader of a view not yet reached sends its own PREPARE for that view (for the block it will propose by the book, case 6)
		for nv := v + 1; nv <= v+2; nv++ {
			if a.isByz(a.leaderOf(nv)) {
				k := fmt.Sprintf("%d|%d", h, nv)
				if a.planned[k] == nil {
					a.planned[k] = a.newBlock(h, false)
				}
				a.toAll(a.mkP(a.leaderOf(nv), protocol.LEAN_HELIX_PREPARE, inst, h, nv, blockHash(a.planned[k])), "leader-prepare-for-own-future-view")
				break
			}
		}
	default: // mutate one aspect of a message seen on the wire and deliver it
		a.mutate(target)
	}
}

// nvWrongBlock: a Byzantine leader of view v or v+1 honours the lock in everything that is signed, but
// attaches a different block (no signature covers the attached block; only its commitment to the signed hash binds it)
func (a *Adversary) nvWrongBlock(h, v uint64) bool {
	inst := a.net.w.Inst
	for nv := v; nv <= v+1; nv++ {
		if nv > 0 && a.isByz(a.leaderOf(nv)) {
			ld := a.leaderOf(nv)
			hash, blk, _ := a.highestSeenLock(h, nv)
			if hash != nil && blk != nil {
				votes := a.genuineVotes(h, nv, true, nil)
				other := a.newBlock(h, false)
				pp := a.ppContent(ld, protocol.LEAN_HELIX_PREPREPARE, inst, h, nv, hash)
				a.toAll(a.mkNV(ld, protocol.LEAN_HELIX_NEW_VIEW, inst, h, nv, votes, pp, other), "nv-wrong-block")
				return true
			}
		}
	}
	return false
}

// mutate takes a message from the wire, changes exactly one aspect, and delivers it.
func (a *Adversary) mutate(target *RealNode) {
	net := a.net
	r := net.r
	if len(net.seen) == 0 {
		return
	}
	s := net.seen[r.Intn(len(net.seen))]
	m := interfaces.ToConsensusMessage(s.Raw)
	inst, h, v := uint64(m.InstanceId()), uint64(m.BlockHeight()), uint64(m.View())
	byz := a.byzIds[r.Intn(len(a.byzIds))]
	op := r.Intn(6)
	resign := r.Intn(2) == 0 // re-sign with a Byzantine key (sender becomes Byzantine) or keep the original signature (which then no longer matches)
	switch op {
	case 0:
		v += uint64(1 + r.Intn(2))
	case 1:
		h++
	case 2:
		inst++
	case 3:
		v = []uint64{1 << 63, ^uint64(0), 1 << 32}[r.Intn(3)]
	}
	name := fmt.Sprintf("mutate/%T/op%d/resign%v", m, op, resign)
	switch m := m.(type) {
	case *interfaces.PrepareMessage:
		hd := m.Content().SignedHeader()
		hash := hd.BlockHash()
		if op == 4 {
			hash = []byte{1, 2, 3}
		}
		if resign || op == 5 {
			key := byz
			if op == 5 {
				key = a.outsiders[0]
			}
			a.inject(target, a.mkP(key, protocol.LEAN_HELIX_PREPARE, inst, h, v, hash), name)
		} else {
			c := &protocol.PrepareContentBuilder{SignedHeader: a.refB(protocol.LEAN_HELIX_PREPARE, inst, h, v, hash), Sender: &protocol.SenderSignatureBuilder{MemberId: m.SenderMemberId(), Signature: m.Content().Sender().Signature()}}
			a.inject(target, interfaces.NewPrepareMessage(c.Build()).ToConsensusRawMessage(), name)
		}
	case *interfaces.CommitMessage:
		hd := m.Content().SignedHeader()
		hash := hd.BlockHash()
		if op == 4 {
			hash = []byte{1, 2, 3}
		}
		if resign || op == 5 {
			key := byz
			if op == 5 {
				key = a.outsiders[0]
			}
			a.inject(target, a.mkC(key, protocol.LEAN_HELIX_COMMIT, inst, h, v, hash), name)
		} else {
			c := &protocol.CommitContentBuilder{SignedHeader: a.refB(protocol.LEAN_HELIX_COMMIT, inst, h, v, hash), Sender: &protocol.SenderSignatureBuilder{MemberId: m.SenderMemberId(), Signature: m.Content().Sender().Signature()}, Share: m.Content().Share()}
			a.inject(target, interfaces.NewCommitMessage(c.Build()).ToConsensusRawMessage(), name)
		}
	case *interfaces.PreprepareMessage:
		blk, _ := m.Block().(*FakeBlock)
		if op == 4 {
			blk = a.newBlock(h, false)
		}
		if resign {
			a.inject(target, a.mkPP(byz, inst, h, v, blk), name)
		} else {
			hd := m.Content().SignedHeader()
			c := &protocol.PreprepareContentBuilder{SignedHeader: a.refB(protocol.LEAN_HELIX_PREPREPARE, inst, h, v, hd.BlockHash()), Sender: &protocol.SenderSignatureBuilder{MemberId: m.SenderMemberId(), Signature: m.Content().Sender().Signature()}}
			var b interfaces.Block
			if blk != nil {
				b = blk
			}
			a.inject(target, interfaces.NewPreprepareMessage(c.Build(), b).ToConsensusRawMessage(), name)
		}
	case *interfaces.ViewChangeMessage:
		key := byz
		if op == 5 {
			key = a.outsiders[1]
		}
		blk, _ := m.Block().(*FakeBlock)
		var proof *protocol.PreparedProofBuilder
		if cs := interfaces.ExtractConfirmationsFromViewChangeMessages([]*interfaces.ViewChangeMessage{m}); len(cs) == 1 {
			proof = cs[0].SignedHeader.PreparedProof
		}
		if op == 4 && proof != nil { // drop a prepare sender from the proof
			if len(proof.PrepareSenders) > 0 {
				proof.PrepareSenders = proof.PrepareSenders[1:]
			}
		}
		if ld, ok := net.nodes[string(a.leaderOf(v))]; ok {
			target = ld
		}
		a.inject(target, a.mkVC(a.vcContent(key, protocol.LEAN_HELIX_VIEW_CHANGE, inst, h, v, proof), blk), name)
	case *interfaces.NewViewMessage:
		// re-deliver as is (a NEW_VIEW from the wire at another moment) — structural mutations are the dedicated strategies
		a.inject(target, s.Raw, "replay-newview")
	}
}
