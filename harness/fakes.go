package main

import (
	"bytes"
	"context"
	"crypto/sha256"
	"encoding/binary"
	"errors"
	"fmt"
	"sync"
	"time"

	"github.com/orbs-network/lean-helix-go/services/interfaces"
	"github.com/orbs-network/lean-helix-go/spec/types/go/primitives"
	"github.com/orbs-network/lean-helix-go/spec/types/go/protocol"
)

// ---- World: what the nodes of one scenario share (keys, committee, block universe)

type SigInfo struct {
	Signer  string
	Height  uint64
	Content []byte
}

type World struct {
	mu        sync.Mutex
	Inst      uint64
	secrets   map[string][]byte
	SigTable  map[string]SigInfo // every signature ever produced by a fake key manager
	Committee func(height uint64) []interfaces.CommitteeMember
}

func NewWorld(inst uint64) *World {
	return &World{Inst: inst, secrets: map[string][]byte{}, SigTable: map[string]SigInfo{}}
}

// SeedFor returns the random seed every correct term of the given height uses: the chain starts
// from the empty genesis proof and continues through the aggregated random-seed signatures.
func (w *World) SeedFor(h uint64) uint64 {
	if h > 4096 { // no scenario reaches such heights by consensus; any fixed value will do
		return calcSeed([]byte("far-future"))
	}
	seed := calcSeed(nil)
	for x := uint64(1); x < h; x++ {
		seed = calcSeed(w.AggSig(x, seed))
	}
	return seed
}

// AggSig is the aggregated random-seed signature of height h given that height's seed.
func (w *World) AggSig(h uint64, seed uint64) []byte {
	ch := sha256.Sum256([]byte(fmt.Sprintf("%d", seed)))
	return w.mac("agg", []byte("master"), h, ch[:8])
}

func calcSeed(sig []byte) uint64 {
	hash := sha256.Sum256(sig)
	array := []byte{hash[0], hash[3], hash[7], hash[11], hash[15], hash[19], hash[23], hash[27]}
	return binary.LittleEndian.Uint64(array)
}

func (w *World) secret(id []byte) []byte {
	w.mu.Lock()
	defer w.mu.Unlock()
	s, ok := w.secrets[string(id)]
	if !ok {
		h := sha256.Sum256(append([]byte("secret-of-"), id...))
		s = h[:]
		w.secrets[string(id)] = s
	}
	return s
}

func u64b(x uint64) []byte {
	b := make([]byte, 8)
	binary.LittleEndian.PutUint64(b, x)
	return b
}

func (w *World) mac(domain string, id []byte, height uint64, content []byte) []byte {
	h := sha256.New()
	h.Write([]byte(domain))
	h.Write(w.secret(id))
	h.Write(u64b(height))
	h.Write(content)
	return h.Sum(nil)[:12]
}

// ---- KeyManager: unforgeable without the secret; signatures are remembered so that traces can
// say which key signed which bytes.

type FakeKeyManager struct {
	w  *World
	me []byte
	VerifyGate func(sender []byte) // optional: called at the start of every VerifyConsensusMessage (to hold a validation at a chosen signer)
}

func (k *FakeKeyManager) SignAs(id []byte, height uint64, content []byte) []byte {
	sig := k.w.mac("msg", id, height, content)
	k.w.mu.Lock()
	k.w.SigTable[string(sig)] = SigInfo{string(id), height, append([]byte{}, content...)}
	k.w.mu.Unlock()
	return sig
}

func (k *FakeKeyManager) SignConsensusMessage(ctx context.Context, blockHeight primitives.BlockHeight, content []byte) primitives.Signature {
	if ctx != nil && ctx.Err() != nil {
		return nil // a key manager that honours its context has nothing to return once it is cancelled (the interface has no error result)
	}
	return k.SignAs(k.me, uint64(blockHeight), content)
}

func (k *FakeKeyManager) VerifyConsensusMessage(blockHeight primitives.BlockHeight, content []byte, sender *protocol.SenderSignature) error {
	if g := k.VerifyGate; g != nil {
		g(sender.MemberId())
	}
	if !bytes.Equal(k.w.mac("msg", sender.MemberId(), uint64(blockHeight), content), sender.Signature()) {
		return errors.New("bad signature")
	}
	return nil
}

func (k *FakeKeyManager) shareAs(id []byte, height uint64, content []byte) []byte {
	ch := sha256.Sum256(content)
	return append(k.w.mac("rnd", id, height, content), ch[:8]...)
}

func (k *FakeKeyManager) SignRandomSeed(ctx context.Context, blockHeight primitives.BlockHeight, content []byte) primitives.RandomSeedSignature {
	return k.shareAs(k.me, uint64(blockHeight), content)
}

func (k *FakeKeyManager) VerifyRandomSeed(blockHeight primitives.BlockHeight, content []byte, sender *protocol.SenderSignature) error {
	if len(sender.MemberId()) == 0 { // master key: aggregated signature
		ch := sha256.Sum256(content)
		if !bytes.Equal(k.w.mac("agg", []byte("master"), uint64(blockHeight), ch[:8]), sender.Signature()) {
			return errors.New("bad aggregated random seed signature")
		}
		return nil
	}
	if !bytes.Equal(k.shareAs(sender.MemberId(), uint64(blockHeight), content), sender.Signature()) {
		return errors.New("bad random seed share")
	}
	return nil
}

func (k *FakeKeyManager) AggregateRandomSeed(blockHeight primitives.BlockHeight, randomSeedShares []*protocol.SenderSignature) primitives.RandomSeedSignature {
	if len(randomSeedShares) == 0 {
		return nil
	}
	s := randomSeedShares[0].Signature()
	if len(s) < 8 {
		return []byte("bad-agg")
	}
	return k.w.mac("agg", []byte("master"), uint64(blockHeight), s[len(s)-8:])
}

// ---- Blocks

type FakeBlock struct {
	H  uint64
	Id uint64
}

func (b *FakeBlock) Height() primitives.BlockHeight                 { return primitives.BlockHeight(b.H) }
func (b *FakeBlock) ReferenceTime() primitives.TimestampSeconds     { return primitives.TimestampSeconds(b.H) }
func (b *FakeBlock) String() string                                 { return fmt.Sprintf("B(%d,%d)", b.H, b.Id) }
func blockHash(b *FakeBlock) []byte {
	h := sha256.Sum256(append(append([]byte("blk"), u64b(b.H)...), u64b(b.Id)...))
	return h[:8]
}

func blockTok(b interfaces.Block) string {
	if b == nil {
		return "nil"
	}
	if fb, ok := b.(*FakeBlock); ok {
		if fb == nil {
			return "nil"
		}
		return fmt.Sprintf("b%d.%d", fb.H, fb.Id)
	}
	return "b?"
}

// ---- BlockUtils

type SpiCall struct {
	Kind    string // "request" | "validate"
	Height  uint64
	Block   string
	Hash    []byte
	Verdict bool
	CtxDone bool
}

type FakeBlockUtils struct {
	me       []byte
	nextId   *uint64
	Verdict  func(b *FakeBlock) bool // consumer-side validation table
	Calls    []SpiCall
	Gate     func(ctx context.Context, kind string) // optional: blocks until released / ctx done
	CancelFn func(kind string, h uint64)            // optional: called during the SPI call (to cancel contexts "meanwhile")
	NilOnCancel bool                                // RequestNewBlockProposal returns (nil, nil) when its context was cancelled during the call
}

func (u *FakeBlockUtils) RequestNewBlockProposal(ctx context.Context, blockHeight primitives.BlockHeight, memberId primitives.MemberId, prevBlock interfaces.Block) (interfaces.Block, primitives.BlockHash) {
	if u.Gate != nil {
		u.Gate(ctx, "request")
	}
	if u.CancelFn != nil {
		u.CancelFn("request", uint64(blockHeight))
	}
	if u.NilOnCancel && ctx.Err() != nil {
		u.Calls = append(u.Calls, SpiCall{Kind: "request", Height: uint64(blockHeight), Block: "-", CtxDone: true})
		return nil, nil
	}
	*u.nextId++
	b := &FakeBlock{H: uint64(blockHeight), Id: *u.nextId}
	u.Calls = append(u.Calls, SpiCall{Kind: "request", Height: uint64(blockHeight), Block: blockTok(b), Hash: blockHash(b), Verdict: true, CtxDone: ctx.Err() != nil})
	return b, blockHash(b)
}

func (u *FakeBlockUtils) ValidateBlockProposal(ctx context.Context, blockHeight primitives.BlockHeight, memberId primitives.MemberId, block interfaces.Block, blockHash_ primitives.BlockHash, prevBlock interfaces.Block) error {
	if u.Gate != nil {
		u.Gate(ctx, "validate")
	}
	if u.CancelFn != nil {
		u.CancelFn("validate", uint64(blockHeight))
	}
	ok := false
	fb, isFake := block.(*FakeBlock)
	if isFake && fb != nil {
		ok = fb.H == uint64(blockHeight) && bytes.Equal(blockHash(fb), blockHash_)
		if ok && u.Verdict != nil {
			ok = u.Verdict(fb)
		}
	}
	u.Calls = append(u.Calls, SpiCall{Kind: "validate", Height: uint64(blockHeight), Block: blockTok(block), Hash: blockHash_, Verdict: ok, CtxDone: ctx.Err() != nil})
	if !ok {
		return errors.New("consumer rejects the proposal")
	}
	return nil
}

func (u *FakeBlockUtils) ValidateBlockCommitment(blockHeight primitives.BlockHeight, block interfaces.Block, blockHash_ primitives.BlockHash) bool {
	fb, isFake := block.(*FakeBlock)
	if !isFake || fb == nil {
		return false
	}
	return bytes.Equal(blockHash(fb), blockHash_)
}

// ---- Membership

type FakeMembership struct {
	w  *World
	me []byte
}

func (m *FakeMembership) MyMemberId() primitives.MemberId { return m.me }
func (m *FakeMembership) RequestOrderedCommittee(ctx context.Context, blockHeight primitives.BlockHeight, randomSeed uint64, prevBlockReferenceTime primitives.TimestampSeconds) ([]interfaces.CommitteeMember, error) {
	return m.w.Committee(uint64(blockHeight)), nil
}
func (m *FakeMembership) RequestCommitteeForBlockProof(ctx context.Context, blockHeight primitives.BlockHeight, prevBlockReferenceTime primitives.TimestampSeconds) ([]interfaces.CommitteeMember, error) {
	return m.w.Committee(uint64(blockHeight)), nil
}

// ---- Communication

type Sent struct {
	From []byte
	To   [][]byte
	Raw  *interfaces.ConsensusRawMessage
}

type FakeComm struct {
	mu     sync.Mutex
	me     []byte
	Outbox []*Sent
}

func (c *FakeComm) SendConsensusMessage(ctx context.Context, recipients []primitives.MemberId, message *interfaces.ConsensusRawMessage) error {
	to := make([][]byte, len(recipients))
	for i, r := range recipients {
		to[i] = append([]byte{}, r...)
	}
	c.mu.Lock()
	c.Outbox = append(c.Outbox, &Sent{From: c.me, To: to, Raw: message})
	c.mu.Unlock()
	return nil
}

// ---- Election scheduler driven by the harness

type FakeElection struct {
	H, V  uint64
	Armed bool
	cb    func(blockHeight primitives.BlockHeight, view primitives.View, onElectionCB interfaces.OnElectionCallback)
	ch    chan *interfaces.ElectionTrigger
	Regs  int
}

func NewFakeElection() *FakeElection {
	return &FakeElection{ch: make(chan *interfaces.ElectionTrigger)}
}
func (e *FakeElection) RegisterOnElection(blockHeight primitives.BlockHeight, view primitives.View, cb func(blockHeight primitives.BlockHeight, view primitives.View, onElectionCB interfaces.OnElectionCallback)) {
	e.H, e.V, e.cb, e.Armed = uint64(blockHeight), uint64(view), cb, true
	e.Regs++
}
func (e *FakeElection) ElectionChannel() chan *interfaces.ElectionTrigger { return e.ch }
func (e *FakeElection) CalcTimeout(view primitives.View) time.Duration     { return time.Second }
func (e *FakeElection) Stop()                                              { e.Armed = false }

// Fire runs the registered election callback for (h, v), as the worker loop does when it takes a
// trigger from the election channel.
func (e *FakeElection) Fire(h, v uint64) {
	if e.cb != nil {
		e.cb(primitives.BlockHeight(h), primitives.View(v), nil)
	}
}

func simpleConfig(w *World, me []byte) (*interfaces.Config, *FakeBlockUtils, *FakeComm, *FakeElection) {
	var ctr uint64
	bu := &FakeBlockUtils{me: me, nextId: &ctr}
	comm := &FakeComm{me: me}
	el := NewFakeElection()
	return &interfaces.Config{
		InstanceId:              primitives.InstanceId(w.Inst),
		Communication:           comm,
		Membership:              &FakeMembership{w: w, me: me},
		BlockUtils:              bu,
		KeyManager:              &FakeKeyManager{w: w, me: me},
		OverrideElectionTrigger: el,
	}, bu, comm, el
}
