package main

import (
	"fmt"
	"sort"
	"strings"

	"github.com/orbs-network/lean-helix-go/services/interfaces"
	"github.com/orbs-network/lean-helix-go/services/randomseed"
	"github.com/orbs-network/lean-helix-go/spec/types/go/primitives"
	"github.com/orbs-network/lean-helix-go/spec/types/go/protocol"
)

// Encoding of real messages into the notation the Lean driver parses (Driver/Node.lean).
// Every SenderSignature is printed with the answer of the real KeyManager.VerifyConsensusMessage
// for the header it is attached to.

type encoder struct {
	km *FakeKeyManager
}

func b01(b bool) string {
	if b {
		return "1"
	}
	return "0"
}

func (e *encoder) ref(r *protocol.BlockRef) string {
	return fmt.Sprintf("R(%d;%d;%d;%d;%s)", uint16(r.MessageType()), uint64(r.InstanceId()), uint64(r.BlockHeight()), uint64(r.View()), hexid(r.BlockHash()))
}

func (e *encoder) sig(height primitives.BlockHeight, raw []byte, s *protocol.SenderSignature) string {
	ok := e.km.VerifyConsensusMessage(height, raw, s) == nil
	return fmt.Sprintf("S(%s;%s)", hexid(s.MemberId()), b01(ok))
}

func (e *encoder) block(b interfaces.Block) string {
	if b == nil {
		return "-"
	}
	fb, ok := b.(*FakeBlock)
	if !ok || fb == nil {
		return "-"
	}
	return fmt.Sprintf("B(%d;%d;%s)", fb.Id, fb.H, hexid(blockHash(fb)))
}

func (e *encoder) proof(p *protocol.PreparedProof) string {
	if p == nil || len(p.Raw()) == 0 {
		return "-"
	}
	ppRef, pRef := p.PreprepareBlockRef(), p.PrepareBlockRef()
	var ss []string
	type kv struct {
		id string
		s  string
	}
	var kvs []kv
	it := p.PrepareSendersIterator()
	for it.HasNext() {
		s := it.NextPrepareSenders()
		kvs = append(kvs, kv{string(s.MemberId()), e.sig(pRef.BlockHeight(), pRef.Raw(), s)})
	}
	sort.SliceStable(kvs, func(i, j int) bool { return idLess(kvs[i].id, kvs[j].id) })
	for _, k := range kvs {
		ss = append(ss, k.s)
	}
	return fmt.Sprintf("P(%s;%s;%s;[%s])", e.ref(ppRef), e.sig(ppRef.BlockHeight(), ppRef.Raw(), p.PreprepareSender()), e.ref(pRef), strings.Join(ss, ","))
}

// ids are compared as the Lean driver compares their Nat images: "1"+hex as a number, i.e. first
// by length then lexicographically
func idLess(a, b string) bool {
	if len(a) != len(b) {
		return len(a) < len(b)
	}
	return a < b
}

func (e *encoder) vc(c *protocol.ViewChangeMessageContent) string {
	h := c.SignedHeader()
	return fmt.Sprintf("V(%d;%d;%d;%d;%s;%s)", uint16(h.MessageType()), uint64(h.InstanceId()), uint64(h.BlockHeight()), uint64(h.View()),
		e.proof(h.PreparedProof()), e.sig(h.BlockHeight(), h.Raw(), c.Sender()))
}

func (e *encoder) ppc(c *protocol.PreprepareContent) string {
	h := c.SignedHeader()
	return fmt.Sprintf("C(%s;%s)", e.ref(h), e.sig(h.BlockHeight(), h.Raw(), c.Sender()))
}

func (e *encoder) msg(raw *interfaces.ConsensusRawMessage) string {
	m := interfaces.ToConsensusMessage(raw)
	switch m := m.(type) {
	case *interfaces.PreprepareMessage:
		return fmt.Sprintf("PP(%s;%s)", e.ppc(m.Content()), e.block(m.Block()))
	case *interfaces.PrepareMessage:
		h := m.Content().SignedHeader()
		return fmt.Sprintf("PR(%s;%s)", e.ref(h), e.sig(h.BlockHeight(), h.Raw(), m.Content().Sender()))
	case *interfaces.CommitMessage:
		h := m.Content().SignedHeader()
		share := (&protocol.SenderSignatureBuilder{MemberId: m.Content().Sender().MemberId(), Signature: primitives.Signature(m.Content().Share())}).Build()
		shareOk := e.km.VerifyRandomSeed(m.BlockHeight(), randomseed.RandomSeedToBytes(e.km.w.SeedFor(uint64(m.BlockHeight()))), share) == nil
		return fmt.Sprintf("CM(%s;%s;%s)", e.ref(h), e.sig(h.BlockHeight(), h.Raw(), m.Content().Sender()), b01(shareOk))
	case *interfaces.ViewChangeMessage:
		return fmt.Sprintf("VC(%s;%s)", e.vc(m.Content()), e.block(m.Block()))
	case *interfaces.NewViewMessage:
		h := m.Content().SignedHeader()
		type kv struct{ id, s string }
		var kvs []kv
		it := h.ViewChangeConfirmationsIterator()
		for it.HasNext() {
			c := it.NextViewChangeConfirmations()
			kvs = append(kvs, kv{string(c.Sender().MemberId()), e.vc(c)})
		}
		sort.SliceStable(kvs, func(i, j int) bool { return idLess(kvs[i].id, kvs[j].id) })
		var vs []string
		for _, k := range kvs {
			vs = append(vs, k.s)
		}
		return fmt.Sprintf("NV(%d;%d;%d;%d;[%s];%s;%s;%s)", uint16(h.MessageType()), uint64(h.InstanceId()), uint64(h.BlockHeight()), uint64(h.View()),
			strings.Join(vs, ","), e.sig(h.BlockHeight(), h.Raw(), m.Content().Sender()), e.ppc(m.Content().Message()), e.block(m.Block()))
	}
	return "?"
}

// canonical: are the signed parts that later travel inside proofs (block references of PREPREPARE /
// PREPARE / COMMIT, the whole VIEW_CHANGE content, the proposal inside a NEW_VIEW) exactly the bytes
// the builders produce from the field values?  Written independently of the repository's own check.
func (e *encoder) canonical(raw *interfaces.ConsensusRawMessage) bool {
	refOK := func(r *protocol.BlockRef) bool {
		b := (&protocol.BlockRefBuilder{MessageType: r.MessageType(), InstanceId: r.InstanceId(), BlockHeight: r.BlockHeight(), View: r.View(), BlockHash: r.BlockHash()}).Build()
		return string(b.Raw()) == string(r.Raw())
	}
	sigB := func(s *protocol.SenderSignature) *protocol.SenderSignatureBuilder {
		return &protocol.SenderSignatureBuilder{MemberId: s.MemberId(), Signature: s.Signature()}
	}
	refB := func(r *protocol.BlockRef) *protocol.BlockRefBuilder {
		return &protocol.BlockRefBuilder{MessageType: r.MessageType(), InstanceId: r.InstanceId(), BlockHeight: r.BlockHeight(), View: r.View(), BlockHash: r.BlockHash()}
	}
	switch m := interfaces.ToConsensusMessage(raw).(type) {
	case *interfaces.PreprepareMessage:
		return refOK(m.Content().SignedHeader())
	case *interfaces.PrepareMessage:
		return refOK(m.Content().SignedHeader())
	case *interfaces.CommitMessage:
		return refOK(m.Content().SignedHeader())
	case *interfaces.NewViewMessage:
		return refOK(m.Content().Message().SignedHeader())
	case *interfaces.ViewChangeMessage:
		h := m.Content().SignedHeader()
		var pb *protocol.PreparedProofBuilder
		if p := h.PreparedProof(); p != nil && len(p.Raw()) > 0 {
			pb = &protocol.PreparedProofBuilder{PreprepareBlockRef: refB(p.PreprepareBlockRef()), PreprepareSender: sigB(p.PreprepareSender()), PrepareBlockRef: refB(p.PrepareBlockRef())}
			it := p.PrepareSendersIterator()
			for it.HasNext() {
				pb.PrepareSenders = append(pb.PrepareSenders, sigB(it.NextPrepareSenders()))
			}
		}
		b := (&protocol.ViewChangeMessageContentBuilder{
			SignedHeader: &protocol.ViewChangeHeaderBuilder{MessageType: h.MessageType(), InstanceId: h.InstanceId(), BlockHeight: h.BlockHeight(), View: h.View(), PreparedProof: pb},
			Sender:       sigB(m.Content().Sender()),
		}).Build()
		return string(b.Raw()) == string(m.Content().Raw())
	}
	return true
}

func (e *encoder) ids(ids [][]byte) string {
	ss := make([]string, len(ids))
	for i, id := range ids {
		ss[i] = string(id)
	}
	sort.SliceStable(ss, func(i, j int) bool { return idLess(ss[i], ss[j]) })
	out := make([]string, len(ss))
	for i, s := range ss {
		out[i] = hexid([]byte(s))
	}
	return "[" + strings.Join(out, ",") + "]"
}

// block proof as handed to the commit callback: commit:<block>:<ref>:[S(id;ok),…]
func (e *encoder) blockProof(b interfaces.Block, proofBytes []byte) string {
	bp := protocol.BlockProofReader(proofBytes)
	ref := bp.BlockRef()
	type kv struct{ id, s string }
	var kvs []kv
	it := bp.NodesIterator()
	for it.HasNext() {
		s := it.NextNodes()
		kvs = append(kvs, kv{string(s.MemberId()), e.sig(ref.BlockHeight(), ref.Raw(), s)})
	}
	sort.SliceStable(kvs, func(i, j int) bool { return idLess(kvs[i].id, kvs[j].id) })
	var ss []string
	for _, k := range kvs {
		ss = append(ss, k.s)
	}
	return fmt.Sprintf("commit:%s:%s:[%s]", e.block(b), e.ref(ref), strings.Join(ss, ","))
}
