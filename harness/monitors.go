package main

import (
	"bytes"
	"context"
	"fmt"
	"strings"

	"github.com/orbs-network/lean-helix-go/services/interfaces"
	"github.com/orbs-network/lean-helix-go/services/randomseed"
	"github.com/orbs-network/lean-helix-go/spec/types/go/primitives"
	"github.com/orbs-network/lean-helix-go/spec/types/go/protocol"
)

// Monitors evaluate the properties' own predicates on the real nodes' behaviour, independently of
// the Lean model (reference predicates written from the property statements).  A hit becomes a
// concrete failing history (the scenario's op lines).
type Monitors struct {
	net       *Net
	decided   map[uint64]map[string]*FakeBlock // height -> node id -> block
	lastCommH map[string]uint64
	lastRound map[string]uint64
	nCommits  map[string]int
	nRounds   map[string]int
	nCb       map[string]int
	pre       preState
	// C10: what each correct node signed
	signedPP  map[string]string // node|h|v -> hash
	signedP   map[string]string
	signedC   map[string]string
	lastVC    map[string]int64 // node|h -> last VIEW_CHANGE view
	maxView   map[string]uint64
	delivered map[string]map[string]bool // node -> raw content already delivered (duplicates)
	bareAdopted bool // some correct node adopted a bare PREPREPARE in a view above 0 in this scenario (known finding D5)
}

type preState struct {
	h, v      uint64
	prepared  string
	hasPPAtMV bool
	dup       bool
	snapshot  string
	in        bool
}

func NewMonitors(net *Net) *Monitors {
	return &Monitors{net: net, decided: map[uint64]map[string]*FakeBlock{}, lastCommH: map[string]uint64{}, lastRound: map[string]uint64{},
		nCommits: map[string]int{}, nRounds: map[string]int{}, nCb: map[string]int{},
		signedPP: map[string]string{}, signedP: map[string]string{}, signedC: map[string]string{}, lastVC: map[string]int64{}, maxView: map[string]uint64{},
		delivered: map[string]map[string]bool{}}
}

func (m *Monitors) viol(prop, sig, what string) {
	m.net.c.Violation(prop, sig, what, m.net.replay())
}

// ---------- reference notions, written from the property text

func (m *Monitors) W() (W, f, Q uint64) {
	for _, mem := range m.net.members {
		W += uint64(mem.Weight)
	}
	f = (W - 1) / 3
	return W, f, W - f
}

func (m *Monitors) weight(ids map[string]bool) uint64 {
	var w uint64
	for _, mem := range m.net.members {
		if ids[string(mem.Id)] {
			w += uint64(mem.Weight)
		}
	}
	return w
}

func (m *Monitors) isMember(id []byte) bool {
	for _, mem := range m.net.members {
		if bytes.Equal(mem.Id, id) {
			return true
		}
	}
	return false
}

func (m *Monitors) leader(v uint64) []byte { return m.net.members[v%uint64(len(m.net.members))].Id }

func (m *Monitors) verifies(n *RealNode, h primitives.BlockHeight, raw []byte, s *protocol.SenderSignature) bool {
	return n.KM.VerifyConsensusMessage(h, raw, s) == nil
}

// a prepared proof "shows valid signatures over one (instance, height, earlier view, hash) by that
// view's leader and by distinct other committee members together reaching quorum weight"
func (m *Monitors) proofValid(n *RealNode, p *protocol.PreparedProof, h, targetView uint64) (bool, string) {
	pp, pr := p.PreprepareBlockRef(), p.PrepareBlockRef()
	inst := primitives.InstanceId(m.net.w.Inst)
	if pp.MessageType() != protocol.LEAN_HELIX_PREPREPARE || pr.MessageType() != protocol.LEAN_HELIX_PREPARE {
		return false, "proof-wrong-type"
	}
	if pp.InstanceId() != inst || pr.InstanceId() != inst {
		return false, "proof-foreign-instance"
	}
	if uint64(pp.BlockHeight()) != h || uint64(pr.BlockHeight()) != h {
		return false, "proof-wrong-height"
	}
	if uint64(pp.View()) >= targetView || pp.View() != pr.View() {
		return false, "proof-view"
	}
	if !bytes.Equal(pp.BlockHash(), pr.BlockHash()) {
		return false, "proof-hash"
	}
	ld := m.leader(uint64(pp.View()))
	if !bytes.Equal(p.PreprepareSender().MemberId(), ld) || !m.verifies(n, pp.BlockHeight(), pp.Raw(), p.PreprepareSender()) {
		return false, "proof-leader-signature"
	}
	ids := map[string]bool{string(ld): true}
	it := p.PrepareSendersIterator()
	for it.HasNext() {
		s := it.NextPrepareSenders()
		if ids[string(s.MemberId())] {
			return false, "proof-duplicate-or-leader-sender"
		}
		if !m.isMember(s.MemberId()) {
			return false, "proof-outsider"
		}
		if !m.verifies(n, pr.BlockHeight(), pr.Raw(), s) {
			return false, "proof-bad-signature"
		}
		ids[string(s.MemberId())] = true
	}
	_, _, Q := m.W()
	if m.weight(ids) < Q {
		return false, "proof-below-quorum"
	}
	return true, ""
}

func hasProof(p *protocol.PreparedProof) bool { return p != nil && len(p.Raw()) > 0 }

func (m *Monitors) voteValid(n *RealNode, c *protocol.ViewChangeMessageContent, h, v uint64) (bool, string) {
	hd := c.SignedHeader()
	if hd.MessageType() != protocol.LEAN_HELIX_VIEW_CHANGE {
		return false, "vote-wrong-type"
	}
	if uint64(hd.InstanceId()) != m.net.w.Inst {
		return false, "vote-foreign-instance"
	}
	if uint64(hd.BlockHeight()) != h || uint64(hd.View()) != v {
		return false, "vote-wrong-height-or-view"
	}
	if !m.isMember(c.Sender().MemberId()) {
		return false, "vote-outsider"
	}
	if !m.verifies(n, hd.BlockHeight(), hd.Raw(), c.Sender()) {
		return false, "vote-bad-signature"
	}
	if hasProof(hd.PreparedProof()) {
		if ok, why := m.proofValid(n, hd.PreparedProof(), h, v); !ok {
			return false, "vote-" + why
		}
	}
	return true, ""
}

// C07: the NEW_VIEW certificate a node may act upon in view v > 0
func (m *Monitors) newViewValid(n *RealNode, nv *interfaces.NewViewMessage, h uint64) (bool, string) {
	hd := nv.Content().SignedHeader()
	v := uint64(hd.View())
	if hd.MessageType() != protocol.LEAN_HELIX_NEW_VIEW {
		return false, "nv-wrong-type"
	}
	if uint64(hd.InstanceId()) != m.net.w.Inst || uint64(hd.BlockHeight()) != h {
		return false, "nv-wrong-instance-or-height"
	}
	if !bytes.Equal(nv.Content().Sender().MemberId(), m.leader(v)) || !m.verifies(n, hd.BlockHeight(), hd.Raw(), nv.Content().Sender()) {
		return false, "nv-not-signed-by-leader"
	}
	ids := map[string]bool{}
	var best *protocol.ViewChangeMessageContent
	it := hd.ViewChangeConfirmationsIterator()
	for it.HasNext() {
		c := it.NextViewChangeConfirmations()
		if ok, why := m.voteValid(n, c, h, v); !ok {
			return false, "nv-" + why
		}
		if ids[string(c.Sender().MemberId())] {
			return false, "nv-duplicate-vote"
		}
		ids[string(c.Sender().MemberId())] = true
		if hasProof(c.SignedHeader().PreparedProof()) {
			if best == nil || c.SignedHeader().PreparedProof().PreprepareBlockRef().View() > best.SignedHeader().PreparedProof().PreprepareBlockRef().View() {
				best = c
			}
		}
	}
	_, _, Q := m.W()
	if m.weight(ids) < Q {
		return false, "nv-votes-below-quorum"
	}
	pp := nv.Content().Message().SignedHeader()
	if pp.MessageType() != protocol.LEAN_HELIX_PREPREPARE || uint64(pp.InstanceId()) != m.net.w.Inst || uint64(pp.BlockHeight()) != h || uint64(pp.View()) != v {
		return false, "nv-embedded-proposal-mismatch"
	}
	if !bytes.Equal(nv.Content().Message().Sender().MemberId(), m.leader(v)) || !m.verifies(n, pp.BlockHeight(), pp.Raw(), nv.Content().Message().Sender()) {
		return false, "nv-embedded-proposal-not-signed-by-leader"
	}
	fb, _ := nv.Block().(*FakeBlock)
	if fb == nil || !bytes.Equal(blockHash(fb), pp.BlockHash()) {
		return false, "nv-block-does-not-match-proposal-hash"
	}
	if best != nil {
		if !bytes.Equal(best.SignedHeader().PreparedProof().PreprepareBlockRef().BlockHash(), pp.BlockHash()) {
			return false, "nv-proposal-is-not-the-highest-prepared-block"
		}
	}
	return true, ""
}

// ---------- hooks called by the scenario runner

func key(n *RealNode, h, v uint64) string { return fmt.Sprintf("%d|%d|%d", n.Idx, h, v) }

func (m *Monitors) beforeDeliver(n *RealNode, f *Flight) {
	hv := n.St.HeightView()
	m.pre = preState{h: uint64(hv.Height()), v: uint64(hv.View()), in: n.Worker.VerifTerm() != nil, snapshot: stateOnly(n.snapshot())}
	if t := n.Worker.VerifTerm(); t != nil {
		if pv, ok := t.VerifPreparedLocally(); ok {
			m.pre.prepared = fmt.Sprintf("%d", uint64(pv))
		}
	}
	cm := interfaces.ToConsensusMessage(f.Raw)
	if cm != nil {
		_, m.pre.hasPPAtMV = n.Store.GetPreprepareMessage(cm.BlockHeight(), cm.View())
	}
	if m.delivered[string(n.Id)] == nil {
		m.delivered[string(n.Id)] = map[string]bool{}
	}
	k := string(f.Raw.Content) + "|" + blockTok(f.Raw.Block)
	m.pre.dup = m.delivered[string(n.Id)][k]
	m.delivered[string(n.Id)][k] = true
}

func stateOnly(snap string) string {
	if i := strings.Index(snap, " outs="); i >= 0 {
		return snap[:i]
	}
	return snap
}

func sendsOrCallbacks(outs []string) bool {
	for _, o := range outs {
		if strings.HasPrefix(o, "send:") || strings.HasPrefix(o, "commit:") || strings.HasPrefix(o, "reg:") || strings.HasPrefix(o, "round:") {
			return true
		}
	}
	return false
}

func (m *Monitors) afterDeliver(n *RealNode, f *Flight, enc string) {
	net := m.net
	cm := interfaces.ToConsensusMessage(f.Raw)
	if cm == nil {
		return
	}
	pre := m.pre
	atHeight := uint64(cm.BlockHeight()) == pre.h && pre.in
	influenced := len(n.Stored) > 0 || sendsOrCallbacks(n.outs) || stateOnly(n.snapshot()) != pre.snapshot
	// a message for a future height is only cached: that is not influence on the protocol state (C17 covers it)
	if uint64(cm.BlockHeight()) > pre.h {
		influenced = false
	}
	mh, mv := uint64(cm.BlockHeight()), uint64(cm.View())
	_ = mh
	advTag := ""
	if net.lastAdvOp != "" {
		advTag = " (adversary operator " + net.lastAdvOp + ")"
	}

	// ---- C08: only authentic, in-committee, role- and height-correct messages influence a node
	if influenced {
		why := ""
		switch x := cm.(type) {
		case *interfaces.PreprepareMessage:
			hd := x.Content().SignedHeader()
			switch {
			case hd.MessageType() != protocol.LEAN_HELIX_PREPREPARE:
				why = "type-mismatch"
			case uint64(hd.InstanceId()) != net.w.Inst || !atHeight:
				why = "wrong-instance-or-height"
			case !m.isMember(x.SenderMemberId()):
				why = "outsider-sender"
			case !m.verifies(n, hd.BlockHeight(), hd.Raw(), x.Content().Sender()):
				why = "bad-signature"
			case !bytes.Equal(x.SenderMemberId(), m.leader(mv)):
				why = "preprepare-not-from-leader"
			}
		case *interfaces.PrepareMessage:
			hd := x.Content().SignedHeader()
			switch {
			case hd.MessageType() != protocol.LEAN_HELIX_PREPARE:
				why = "type-mismatch"
			case uint64(hd.InstanceId()) != net.w.Inst || !atHeight:
				why = "wrong-instance-or-height"
			case !m.isMember(x.SenderMemberId()):
				why = "outsider-sender"
			case !m.verifies(n, hd.BlockHeight(), hd.Raw(), x.Content().Sender()):
				why = "bad-signature"
			case bytes.Equal(x.SenderMemberId(), m.leader(mv)):
				why = "prepare-from-leader"
			case mv < pre.v:
				why = "stale-view"
			}
		case *interfaces.CommitMessage:
			hd := x.Content().SignedHeader()
			share := (&protocol.SenderSignatureBuilder{MemberId: x.SenderMemberId(), Signature: primitives.Signature(x.Content().Share())}).Build()
			switch {
			case hd.MessageType() != protocol.LEAN_HELIX_COMMIT:
				why = "type-mismatch"
			case uint64(hd.InstanceId()) != net.w.Inst || !atHeight:
				why = "wrong-instance-or-height"
			case !m.isMember(x.SenderMemberId()):
				why = "outsider-sender"
			case !m.verifies(n, hd.BlockHeight(), hd.Raw(), x.Content().Sender()):
				why = "bad-signature"
			case n.KM.VerifyRandomSeed(hd.BlockHeight(), randomseed.RandomSeedToBytes(net.w.SeedFor(uint64(hd.BlockHeight()))), share) != nil:
				why = "bad-share"
			}
		case *interfaces.ViewChangeMessage:
			hd := x.Content().SignedHeader()
			switch {
			case hd.MessageType() != protocol.LEAN_HELIX_VIEW_CHANGE:
				why = "type-mismatch"
			case uint64(hd.InstanceId()) != net.w.Inst || !atHeight:
				why = "wrong-instance-or-height"
			case !m.isMember(x.SenderMemberId()):
				why = "outsider-sender"
			case !m.verifies(n, hd.BlockHeight(), hd.Raw(), x.Content().Sender()):
				why = "bad-signature"
			case !bytes.Equal(m.leader(mv), n.Id):
				why = "view-change-not-addressed-to-me"
			case mv < pre.v:
				why = "stale-view"
			default:
				if hasProof(hd.PreparedProof()) {
					if ok, w := m.proofValid(n, hd.PreparedProof(), pre.h, mv); !ok {
						why = "vote-" + w
					}
				}
			}
		case *interfaces.NewViewMessage:
			if mv < pre.v {
				why = "stale-view"
			}
		}
		if why != "" {
			m.viol("C08", why, fmt.Sprintf("node %d was influenced by %T %s although: %s%s; stored=%v outs=%v", n.Idx, cm, short(enc), why, advTag, n.Stored, shortList(n.outs)))
		}
		net.c.Nontrivial(fmt.Sprintf("influence/%T/%s", cm, net.lastAdvOp))
	} else {
		net.c.Nontrivial(fmt.Sprintf("ignored/%T/%s", cm, net.lastAdvOp))
	}

	// ---- C07: acting in a view above 0 only on a valid NEW_VIEW certificate
	adoptedView := int64(-1)
	for _, o := range n.outs {
		if strings.HasPrefix(o, "send:") && strings.Contains(o, ":PR(R(2;") {
			// PR(R(2;inst;h;v;hash)…
			var t, inst, hh, vv uint64
			i := strings.Index(o, ":PR(R(")
			fmt.Sscanf(o[i+6:], "%d;%d;%d;%d;", &t, &inst, &hh, &vv)
			if hh == pre.h {
				adoptedView = int64(vv)
			}
		}
	}
	if adoptedView > 0 && atHeight {
		switch x := cm.(type) {
		case *interfaces.NewViewMessage:
			if ok, why := m.newViewValid(n, x, pre.h); !ok {
				m.viol("C07", why, fmt.Sprintf("node %d sent PREPARE in view %d on a NEW_VIEW that is not a valid certificate: %s%s", n.Idx, adoptedView, why, advTag))
			} else if uint64(x.View()) != uint64(adoptedView) {
				m.viol("C07", "nv-other-view", fmt.Sprintf("node %d sent PREPARE in view %d on a NEW_VIEW for view %d", n.Idx, adoptedView, uint64(x.View())))
			}
			net.c.Nontrivial(fmt.Sprintf("adopt-gt0/newview/%s", net.lastAdvOp))
		case *interfaces.PreprepareMessage:
			m.bareAdopted = true
			m.viol("C07", "bare-preprepare-gt0", fmt.Sprintf("node %d sent PREPARE in view %d on a bare PREPREPARE (no NEW_VIEW certificate)%s", n.Idx, adoptedView, advTag))
		default:
			m.viol("C07", "adopt-on-other-message", fmt.Sprintf("node %d sent PREPARE in view %d while handling %T", n.Idx, adoptedView, cm))
		}
	}

	// ---- C11: what a correct node emits, correct peers in a matching state accept
	if !f.Byz && f.From != nil && net.nodes[string(f.From)] != nil && atHeight && !pre.dup {
		post := n.St.HeightView()
		sameHeight := uint64(post.Height()) == pre.h
		interfered := false
		for _, s := range n.spi {
			if strings.HasPrefix(s, "verd(0") || !strings.HasSuffix(s, ";-)") && (strings.HasPrefix(s, "verd(") || strings.HasPrefix(s, "prop(")) {
				interfered = true
			}
		}
		switch x := cm.(type) {
		case *interfaces.PrepareMessage:
			if mv >= pre.v && sameHeight {
				if !containsId(n.Store.GetPrepareSendersIds(x.BlockHeight(), x.View(), x.Content().SignedHeader().BlockHash()), x.SenderMemberId()) {
					m.viol("C11", "honest-prepare-not-counted", fmt.Sprintf("node %d did not count the PREPARE of correct node %x for view %d (own view %d)", n.Idx, f.From, mv, pre.v))
				}
				net.c.Nontrivial("c11/prepare")
			}
		case *interfaces.CommitMessage:
			if sameHeight {
				if !containsId(n.Store.GetCommitSendersIds(x.BlockHeight(), x.View(), x.Content().SignedHeader().BlockHash()), x.SenderMemberId()) {
					m.viol("C11", "honest-commit-not-counted", fmt.Sprintf("node %d did not count the COMMIT of correct node %x for view %d", n.Idx, f.From, mv))
				}
				net.c.Nontrivial("c11/commit")
			}
		case *interfaces.ViewChangeMessage:
			if mv >= pre.v && bytes.Equal(m.leader(mv), n.Id) && sameHeight {
				vcs, _ := n.Store.GetViewChangeMessages(x.BlockHeight(), x.View())
				found := false
				for _, vc := range vcs {
					if bytes.Equal(vc.SenderMemberId(), x.SenderMemberId()) {
						found = true
					}
				}
				if !found {
					m.viol("C11", "honest-viewchange-not-counted", fmt.Sprintf("leader node %d did not count the VIEW_CHANGE of correct node %x for view %d (own view %d)", n.Idx, f.From, mv, pre.v))
				}
				net.c.Nontrivial("c11/viewchange")
			}
		case *interfaces.NewViewMessage:
			// (a member whose contexts of this height were already cancelled by a pending node sync is leaving the height: it validates nothing;
			// likewise a member whose election trigger for the NEW_VIEW's view was already handled by the main loop — during an earlier
			// SPI call — has its contexts below the next view cancelled and is passing that view: the election message is in its queue)
			passing := n.CancelledH == pre.h && mv < n.CancelledV
			if mv >= pre.v && !pre.hasPPAtMV && !interfered && sameHeight && n.AheadUntil <= pre.h && !passing {
				_, has := n.Store.GetPreprepareMessage(x.BlockHeight(), x.View())
				if uint64(post.View()) != mv || !has {
					m.viol("C11", "honest-newview-not-adopted", fmt.Sprintf("node %d (view %d) did not adopt the NEW_VIEW of correct leader %x for view %d", n.Idx, pre.v, f.From, mv))
				}
				net.c.Nontrivial("c11/newview")
			}
		}
	}
}

func containsId(ids []primitives.MemberId, id []byte) bool {
	for _, x := range ids {
		if bytes.Equal(x, id) {
			return true
		}
	}
	return false
}

func short(s string) string {
	if len(s) > 300 {
		return s[:300] + "…"
	}
	return s
}
func shortList(xs []string) string { return short(strings.Join(xs, "|")) }

func (m *Monitors) afterEvent(n *RealNode, ev string) {
	id := string(n.Id)
	// --- C13: commit heights and new-round heights strictly increase; commit h is followed only by rounds above h
	// (callbacks are processed in the order they happened)
	for m.nCb[id] < len(n.CbOrder) {
		kind := n.CbOrder[m.nCb[id]]
		m.nCb[id]++
		if kind == "r" {
			m.oneRound(n, id)
			continue
		}
		m.oneCommit(n, id)
	}
	m.outgoing(n, ev)
}

// ---- C10 (and the producer half of C09): the outgoing stream of a correct node
func (m *Monitors) outgoing(n *RealNode, ev string) {
	net := m.net
	hvNow := n.St.HeightView()
	for _, s := range n.newSent {
		cm := interfaces.ToConsensusMessage(s.Raw)
		if cm == nil {
			continue
		}
		h, v := uint64(cm.BlockHeight()), uint64(cm.View())
		k := key(n, h, v)
		one := func(tbl map[string]string, hash []byte, what string) {
			if old, ok := tbl[k]; ok && old != string(hash) {
				m.viol("C10", "equivocation-"+what, fmt.Sprintf("node %d signed two different %s hashes for height %d view %d", n.Idx, what, h, v))
			}
			tbl[k] = string(hash)
		}
		hk := fmt.Sprintf("%d|%d", n.Idx, h)
		switch x := cm.(type) {
		case *interfaces.PreprepareMessage:
			one(m.signedPP, x.Content().SignedHeader().BlockHash(), "proposal")
			if !bytes.Equal(m.leader(v), n.Id) {
				m.viol("C10", "proposal-by-non-leader", fmt.Sprintf("node %d sent a PREPREPARE for view %d it does not lead", n.Idx, v))
			}
			if v < m.maxView[hk] {
				m.viol("C10", "proposal-below-current-view", fmt.Sprintf("node %d sent a PREPREPARE for view %d after moving to view %d", n.Idx, v, m.maxView[hk]))
			}
		case *interfaces.NewViewMessage:
			one(m.signedPP, x.Content().Message().SignedHeader().BlockHash(), "proposal")
			if v < m.maxView[hk] {
				m.viol("C10", "proposal-below-current-view", fmt.Sprintf("node %d sent a NEW_VIEW for view %d after moving to view %d", n.Idx, v, m.maxView[hk]))
			}
			m.checkNewViewProduced(n, x)
		case *interfaces.PrepareMessage:
			one(m.signedP, x.Content().SignedHeader().BlockHash(), "PREPARE")
			if bytes.Equal(m.leader(v), n.Id) {
				m.viol("C10", "prepare-as-leader", fmt.Sprintf("node %d sent a PREPARE in view %d which it leads", n.Idx, v))
			}
			if v < m.maxView[hk] {
				m.viol("C10", "prepare-below-current-view", fmt.Sprintf("node %d sent a PREPARE for view %d after moving to view %d", n.Idx, v, m.maxView[hk]))
			}
			// PREPARE only for the proposal it accepted from that view's leader
			if pp, ok := n.Store.GetPreprepareMessage(x.BlockHeight(), x.View()); uint64(hvNow.Height()) == h && (!ok || !bytes.Equal(pp.Content().SignedHeader().BlockHash(), x.Content().SignedHeader().BlockHash()) || !bytes.Equal(pp.SenderMemberId(), m.leader(v))) {
				m.viol("C10", "prepare-without-accepted-proposal", fmt.Sprintf("node %d sent PREPARE for height %d view %d without holding that view's leader's proposal for the same hash", n.Idx, h, v))
			}
		case *interfaces.CommitMessage:
			one(m.signedC, x.Content().SignedHeader().BlockHash(), "COMMIT")
		case *interfaces.ViewChangeMessage:
			if last, ok := m.lastVC[hk]; ok && int64(v) <= last {
				m.viol("C10", "viewchange-views-not-increasing", fmt.Sprintf("node %d sent VIEW_CHANGE for view %d after one for view %d", n.Idx, v, last))
			}
			m.lastVC[hk] = int64(v)
			m.checkViewChangeProduced(n, x)
		}
		net.c.Nontrivial(fmt.Sprintf("out/%T", cm))
	}
	if uint64(hvNow.View()) > m.maxView[fmt.Sprintf("%d|%d", n.Idx, uint64(hvNow.Height()))] {
		m.maxView[fmt.Sprintf("%d|%d", n.Idx, uint64(hvNow.Height()))] = uint64(hvNow.View())
	}
}

// C09 (first half): a VIEW_CHANGE sent while holding a prepared certificate carries a valid proof
// for the highest prepared view, with the matching block.
func (m *Monitors) checkViewChangeProduced(n *RealNode, x *interfaces.ViewChangeMessage) {
	h, v := uint64(x.BlockHeight()), uint64(x.View())
	t := n.Worker.VerifTerm()
	if t == nil {
		return
	}
	pv, prepared := t.VerifPreparedLocally()
	p := x.Content().SignedHeader().PreparedProof()
	if !prepared {
		return
	}
	m.net.c.Nontrivial("c09/vote-while-prepared")
	if !hasProof(p) {
		m.viol("C09", "vote-without-proof", fmt.Sprintf("node %d is prepared in view %d but its VIEW_CHANGE for view %d carries no proof", n.Idx, uint64(pv), v))
		return
	}
	if uint64(p.PreprepareBlockRef().View()) != uint64(pv) {
		m.viol("C09", "vote-proof-not-highest", fmt.Sprintf("node %d is prepared in view %d but its VIEW_CHANGE carries a proof of view %d", n.Idx, uint64(pv), uint64(p.PreprepareBlockRef().View())))
	}
	if ok, why := m.proofValid(n, p, h, v); !ok {
		m.viol("C09", "vote-proof-invalid:"+why, fmt.Sprintf("node %d sent a VIEW_CHANGE whose own prepared proof is not valid: %s", n.Idx, why))
	}
	fb, _ := x.Block().(*FakeBlock)
	if fb == nil || !bytes.Equal(blockHash(fb), p.PreprepareBlockRef().BlockHash()) {
		m.viol("C09", "vote-block-mismatch", fmt.Sprintf("node %d sent a VIEW_CHANGE whose block does not match its proof", n.Idx))
	}
}

// C09 (second half) + C07 (leader side): the NEW_VIEW a correct leader sends embeds a quorum of
// valid votes and proposes the block of the highest-view proof among them, or a fresh block if none.
func (m *Monitors) checkNewViewProduced(n *RealNode, x *interfaces.NewViewMessage) {
	h := uint64(x.BlockHeight())
	if ok, why := m.newViewValid(n, x, h); !ok {
		sig := "own-newview-invalid:" + why
		m.viol("C11", sig, fmt.Sprintf("correct leader node %d sent a NEW_VIEW for view %d that is not a valid certificate (%s): correct peers must reject it", n.Idx, uint64(x.View()), why))
		if strings.Contains(why, "highest-prepared") {
			m.viol("C09", "newview-does-not-repropose-highest", fmt.Sprintf("correct leader node %d proposed a block other than the highest prepared one among the votes it embeds", n.Idx))
		}
	}
	// C09: the NEW_VIEW embeds exactly the votes the leader counted: each embedded vote must still be the
	// vote its sender signed (an altered or mixed-up vote no longer verifies)
	it := x.Content().SignedHeader().ViewChangeConfirmationsIterator()
	for it.HasNext() {
		cv := it.NextViewChangeConfirmations()
		if ok, why := m.voteValid(n, cv, h, uint64(x.View())); !ok {
			m.viol("C09", "newview-embeds-altered-vote", fmt.Sprintf("correct leader node %d embedded a vote of %x that is not the vote it counted (%s)", n.Idx, cv.Sender().MemberId(), why))
		}
	}
	m.net.c.Nontrivial("c09/newview-produced")
}

func (m *Monitors) oneCommit(n *RealNode, id string) {
	net := m.net
	if m.nCommits[id] < len(n.Commits) {
		co := n.Commits[m.nCommits[id]]
		m.nCommits[id]++
		h := co.Block.H
		if h <= m.lastCommH[id] {
			m.viol("C13", "commit-height-not-increasing", fmt.Sprintf("node %d: commit callback for height %d after height %d", n.Idx, h, m.lastCommH[id]))
		}
		m.lastCommH[id] = h
		// --- C01: agreement
		if m.decided[h] == nil {
			m.decided[h] = map[string]*FakeBlock{}
		}
		for other, b := range m.decided[h] {
			if b.Id != co.Block.Id {
				sig := "fork"
				if m.bareAdopted {
					sig = "fork-after-bare-preprepare-gt0" // the lock was bypassed through the known finding D5
				}
				m.viol("C01", sig, fmt.Sprintf("height %d: node %d committed block %d, node %x committed block %d", h, n.Idx, co.Block.Id, other, b.Id))
			}
		}
		m.decided[h][id] = co.Block
		net.c.Nontrivial(fmt.Sprintf("commit/h%d/n%d", h, n.Idx))
		net.c.Class("commit")
		// --- C04: the delivered block has the height being decided and matches the certified hash
		{
			bp := protocol.BlockProofReader(co.Proof)
			func() {
				defer func() { recover() }()
				if !bytes.Equal(bp.BlockRef().BlockHash(), blockHash(co.Block)) || uint64(bp.BlockRef().BlockHeight()) != co.Block.H {
					m.viol("C04", "committed-block-does-not-match-certificate", fmt.Sprintf("height %d: node %d delivered block %d under a certificate for another hash/height", h, n.Idx, co.Block.Id))
				}
			}()
		}
		// --- C04: external validity
		approved := false
		for _, o := range net.order {
			if o.Approved[co.Block.Id] || o.Proposed[co.Block.Id] {
				approved = true
			}
		}
		if !approved {
			m.viol("C04", "committed-unvalidated-block", fmt.Sprintf("height %d: node %d committed block %d which no correct member's consumer validated or proposed", h, n.Idx, co.Block.Id))
		}
		if co.Block.H != uint64(n.St.Height())-0 && false {
			_ = approved
		}
		// --- C03: every committed (block, proof) passes strict ValidateBlockConsensus on another correct node
		for _, o := range net.order {
			if o == n {
				continue
			}
			prevProof := []byte(nil)
			if h > 1 {
				prevProof = net.syncProof(h - 1)
			}
			var err error
			func() {
				defer func() {
					if r := recover(); r != nil {
						err = fmt.Errorf("panic: %v", r)
					}
				}()
				if h > 1 {
					err = o.Worker.ValidateBlockConsensus(context.Background(), co.Block, co.Proof, &FakeBlock{H: h - 1}, prevProof, false)
				} else {
					err = o.Worker.ValidateBlockConsensus(context.Background(), co.Block, co.Proof, nil, prevProof, false)
				}
			}()
			if err != nil {
				m.viol("C03", "committed-proof-rejected", fmt.Sprintf("height %d: the (block, proof) node %d committed is rejected by node %d: %v", h, n.Idx, o.Idx, err))
			}
			break
		}
	}
}

func (m *Monitors) oneRound(n *RealNode, id string) {
	if m.nRounds[id] < len(n.Rounds) {
		ro := n.Rounds[m.nRounds[id]]
		m.nRounds[id]++
		if ro.H <= m.lastRound[id] {
			m.viol("C13", "round-height-not-increasing", fmt.Sprintf("node %d: new-round callback for height %d after height %d", n.Idx, ro.H, m.lastRound[id]))
		}
		if ro.H <= m.lastCommH[id] {
			m.viol("C13", "round-not-above-commit", fmt.Sprintf("node %d: new-round callback for height %d after commit of height %d", n.Idx, ro.H, m.lastCommH[id]))
		}
		m.lastRound[id] = ro.H
	}
}
