package main

import (
	"context"
	"fmt"
)

// Monitors evaluate the properties' own predicates on the real nodes' behaviour, independently of
// the Lean model.  A hit becomes a concrete failing history (the scenario's op lines).
type Monitors struct {
	net       *Net
	decided   map[uint64]map[string]*FakeBlock // height -> node id -> block
	lastCommH map[string]uint64
	lastRound map[string]uint64
	nCommits  map[string]int
	nRounds   map[string]int
	nCb       map[string]int
}

func NewMonitors(net *Net) *Monitors {
	return &Monitors{net: net, decided: map[uint64]map[string]*FakeBlock{}, lastCommH: map[string]uint64{}, lastRound: map[string]uint64{}, nCommits: map[string]int{}, nRounds: map[string]int{}, nCb: map[string]int{}}
}

func (m *Monitors) viol(prop, sig, what string) {
	m.net.c.Violation(prop, sig, what, m.net.replay())
}

func (m *Monitors) beforeDeliver(n *RealNode, f *Flight) {}

func (m *Monitors) afterDeliver(n *RealNode, f *Flight, enc string) {}

func (m *Monitors) afterEvent(n *RealNode, ev string) {
	id := string(n.Id)
	// --- C13: commit heights and new-round heights strictly increase; commit h is followed only by rounds above h
	// (callbacks are processed in the order they happened)
	for m.nCb[id] < len(n.CbOrder) {
		kind := n.CbOrder[m.nCb[id]]
		m.nCb[id]++
		if kind == "r" {
			m.oneRound(n, id)
			continue
		}
		m.oneCommit(n, id)
	}
}

func (m *Monitors) oneCommit(n *RealNode, id string) {
	net := m.net
	if m.nCommits[id] < len(n.Commits) {
		co := n.Commits[m.nCommits[id]]
		m.nCommits[id]++
		h := co.Block.H
		if h <= m.lastCommH[id] {
			m.viol("C13", "commit-height-not-increasing", fmt.Sprintf("node %d: commit callback for height %d after height %d", n.Idx, h, m.lastCommH[id]))
		}
		m.lastCommH[id] = h
		// --- C01: agreement
		if m.decided[h] == nil {
			m.decided[h] = map[string]*FakeBlock{}
		}
		for other, b := range m.decided[h] {
			if b.Id != co.Block.Id {
				m.viol("C01", "fork", fmt.Sprintf("height %d: node %d committed block %d, node %x committed block %d", h, n.Idx, co.Block.Id, other, b.Id))
			}
		}
		m.decided[h][id] = co.Block
		net.c.Nontrivial(fmt.Sprintf("commit/h%d/n%d", h, n.Idx))
		net.c.Class("commit")
		// --- C03: every committed (block, proof) passes strict ValidateBlockConsensus on another correct node
		for _, o := range net.order {
			if o == n {
				continue
			}
			prevProof := []byte(nil)
			if h > 1 {
				prevProof = net.syncProof(h - 1)
			}
			var prev *FakeBlock
			if h > 1 {
				prev = &FakeBlock{H: h - 1}
			}
			var err error
			func() {
				defer func() {
					if r := recover(); r != nil {
						err = fmt.Errorf("panic: %v", r)
					}
				}()
				if prev == nil {
					err = o.Worker.ValidateBlockConsensus(context.Background(), co.Block, co.Proof, nil, prevProof, false)
				} else {
					err = o.Worker.ValidateBlockConsensus(context.Background(), co.Block, co.Proof, prev, prevProof, false)
				}
			}()
			if err != nil {
				m.viol("C03", "committed-proof-rejected", fmt.Sprintf("height %d: the (block, proof) node %d committed is rejected by node %d: %v", h, n.Idx, o.Idx, err))
			}
			break
		}
	}
}

func (m *Monitors) oneRound(n *RealNode, id string) {
	if m.nRounds[id] < len(n.Rounds) {
		ro := n.Rounds[m.nRounds[id]]
		m.nRounds[id]++
		if ro.H <= m.lastRound[id] {
			m.viol("C13", "round-height-not-increasing", fmt.Sprintf("node %d: new-round callback for height %d after height %d", n.Idx, ro.H, m.lastRound[id]))
		}
		if ro.H <= m.lastCommH[id] {
			m.viol("C13", "round-not-above-commit", fmt.Sprintf("node %d: new-round callback for height %d after commit of height %d", n.Idx, ro.H, m.lastCommH[id]))
		}
		m.lastRound[id] = ro.H
	}
}
