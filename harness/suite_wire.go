package main

import (
	"bytes"
	"context"
	"crypto/sha256"
	"encoding/hex"
	"errors"
	"fmt"
	"strings"

	"github.com/orbs-network/lean-helix-go/services/blockproof"
	"github.com/orbs-network/lean-helix-go/services/interfaces"
	"github.com/orbs-network/lean-helix-go/services/messagesfactory"
	"github.com/orbs-network/lean-helix-go/services/preparedmessages"
	"github.com/orbs-network/lean-helix-go/services/storage"
	"github.com/orbs-network/lean-helix-go/spec/types/go/primitives"
	"github.com/orbs-network/lean-helix-go/spec/types/go/protocol"
)

// Suite `wire` (C20): the wire format round trip.
//
// Part A drives the repository's own path: messagesfactory builds and signs -> ToConsensusRawMessage ->
// bytes -> ToConsensusMessage / ParseConsensusMessage; block proofs via blockproof.GenerateLeanHelixBlockProof.
//   enc <TERM>   model: Content.encode of the intended field values   impl: the content bytes the real code produced
//   dec <hex>    model: Content.decode                                impl: every field re-read with the real readers
//   hdr <hex>    model: raw bytes of the signed header                impl: what the real reader hands to the verifier
// and a Go monitor: every signature that verified on the built message verifies on the re-read bytes,
// inside prepared proofs, NEW_VIEW confirmations and block proofs too.
// Part B: builder-level messages over the whole field range (64-bit numbers, ids/hashes/signatures of
// 0..256 bytes, 0..20 votes and prepare senders) and mutated buffers, model reader against a strict
// reading with the real readers.

func init() { suites["wire"] = suiteWire }

// wireKM: deterministic signatures of variable length (0..256 bytes)
type wireKM struct {
	me []byte
}

func wireSig(domain string, id []byte, height uint64, content []byte) []byte {
	h := sha256.New()
	h.Write([]byte(domain))
	h.Write(u64b(uint64(len(id))))
	h.Write(id)
	h.Write(u64b(height))
	h.Write(content)
	d := h.Sum(nil)
	n := int(d[0]) + int(d[1]&1) // 0..256
	if d[2]%7 == 0 {
		n = int(d[3] % 5) // short ones, 0 included
	}
	out := make([]byte, 0, n)
	blk := d
	for len(out) < n {
		s := sha256.Sum256(blk)
		blk = s[:]
		out = append(out, blk...)
	}
	return out[:n]
}

func (k *wireKM) SignConsensusMessage(ctx context.Context, h primitives.BlockHeight, content []byte) primitives.Signature {
	return wireSig("msg", k.me, uint64(h), content)
}
func (k *wireKM) VerifyConsensusMessage(h primitives.BlockHeight, content []byte, sender *protocol.SenderSignature) error {
	if !bytes.Equal(wireSig("msg", sender.MemberId(), uint64(h), content), sender.Signature()) {
		return errors.New("bad signature")
	}
	return nil
}
func (k *wireKM) SignRandomSeed(ctx context.Context, h primitives.BlockHeight, content []byte) primitives.RandomSeedSignature {
	return wireSig("rnd", k.me, uint64(h), content)
}
func (k *wireKM) VerifyRandomSeed(h primitives.BlockHeight, content []byte, sender *protocol.SenderSignature) error {
	if !bytes.Equal(wireSig("rnd", sender.MemberId(), uint64(h), content), sender.Signature()) {
		return errors.New("bad share")
	}
	return nil
}
func (k *wireKM) AggregateRandomSeed(h primitives.BlockHeight, shares []*protocol.SenderSignature) primitives.RandomSeedSignature {
	hh := sha256.New()
	for _, s := range shares {
		hh.Write(s.Signature())
	}
	return wireSig("agg", []byte("master"), uint64(h), hh.Sum(nil))
}

type wireGen struct {
	c      *Ctx
	maxLen int
	maxArr int
}

func wx(b []byte) string { return "x" + hex.EncodeToString(b) }

func (g *wireGen) rbytes() []byte {
	r := g.c.Rng
	var n int
	switch r.Intn(6) {
	case 0:
		n = 0
	case 1:
		n = r.Intn(10)
	case 2:
		n = []int{20, 31, 32, 33, 64, 65, 255, 256}[r.Intn(8)]
	default:
		n = r.Intn(g.maxLen + 1)
	}
	if n > g.maxLen {
		n = g.maxLen
	}
	if n == 0 && r.Intn(2) == 0 {
		return nil
	}
	b := make([]byte, n)
	r.Read(b)
	return b
}

func (g *wireGen) ru64() uint64 {
	r := g.c.Rng
	switch r.Intn(7) {
	case 0:
		return 0
	case 1:
		return ^uint64(0)
	case 2:
		return uint64(r.Intn(1000))
	case 3:
		return uint64(r.Uint32())
	case 4:
		return uint64(1)<<uint(r.Intn(64)) - uint64(r.Intn(2))
	default:
		return r.Uint64()
	}
}

func (g *wireGen) ru16() uint16 {
	r := g.c.Rng
	switch r.Intn(4) {
	case 0:
		return uint16(r.Intn(6))
	case 1:
		return 0xffff
	default:
		return uint16(r.Intn(65536))
	}
}

// ---- strict reading with the real readers: every message that is descended into must be IsValid

type wireBad struct{}

func wneed(ok bool) {
	if !ok {
		panic(wireBad{})
	}
}

func wreadR(r *protocol.BlockRef) string {
	wneed(r.IsValid())
	return fmt.Sprintf("R(%d;%d;%d;%d;%s)", uint16(r.MessageType()), uint64(r.InstanceId()), uint64(r.BlockHeight()), uint64(r.View()), wx(r.BlockHash()))
}

func wreadS(s *protocol.SenderSignature) string {
	wneed(s.IsValid())
	return fmt.Sprintf("S(%s;%s)", wx(s.MemberId()), wx(s.Signature()))
}

func wreadP(p *protocol.PreparedProof) string {
	if p == nil || len(p.Raw()) == 0 {
		return "-"
	}
	wneed(p.IsValid())
	var ts []string
	for it := p.PrepareSendersIterator(); it.HasNext(); {
		ts = append(ts, wreadS(it.NextPrepareSenders()))
	}
	return fmt.Sprintf("P(%s;%s;%s;[%s])", wreadR(p.PreprepareBlockRef()), wreadS(p.PreprepareSender()), wreadR(p.PrepareBlockRef()), strings.Join(ts, ","))
}

func wreadV(v *protocol.ViewChangeMessageContent) string {
	wneed(v.IsValid())
	h := v.SignedHeader()
	wneed(h.IsValid())
	return fmt.Sprintf("V(%d;%d;%d;%d;%s;%s)", uint16(h.MessageType()), uint64(h.InstanceId()), uint64(h.BlockHeight()), uint64(h.View()),
		wreadP(h.PreparedProof()), wreadS(v.Sender()))
}

func wreadContent(raw []byte) (term string, hdr string) {
	defer func() {
		if r := recover(); r != nil {
			if _, ok := r.(wireBad); ok {
				term, hdr = "invalid", "invalid"
			} else {
				term, hdr = "PANIC", "PANIC"
			}
		}
	}()
	c := protocol.LeanhelixContentReader(raw)
	wneed(c.IsValid())
	switch {
	case c.IsMessagePreprepareMessage():
		m := c.PreprepareMessage()
		wneed(m.IsValid())
		hdr = hex.EncodeToString(m.RawSignedHeader())
		term = fmt.Sprintf("PP(%s;%s)", wreadR(m.SignedHeader()), wreadS(m.Sender()))
	case c.IsMessagePrepareMessage():
		m := c.PrepareMessage()
		wneed(m.IsValid())
		hdr = hex.EncodeToString(m.RawSignedHeader())
		term = fmt.Sprintf("PR(%s;%s)", wreadR(m.SignedHeader()), wreadS(m.Sender()))
	case c.IsMessageCommitMessage():
		m := c.CommitMessage()
		wneed(m.IsValid())
		hdr = hex.EncodeToString(m.RawSignedHeader())
		term = fmt.Sprintf("CM(%s;%s;%s)", wreadR(m.SignedHeader()), wreadS(m.Sender()), wx(m.Share()))
	case c.IsMessageViewChangeMessage():
		m := c.ViewChangeMessage()
		wneed(m.IsValid())
		hdr = hex.EncodeToString(m.RawSignedHeader())
		term = fmt.Sprintf("VC(%s)", wreadV(m))
	case c.IsMessageNewViewMessage():
		m := c.NewViewMessage()
		wneed(m.IsValid())
		hdr = hex.EncodeToString(m.RawSignedHeader())
		h := m.SignedHeader()
		wneed(h.IsValid())
		var tvs []string
		for it := h.ViewChangeConfirmationsIterator(); it.HasNext(); {
			tvs = append(tvs, wreadV(it.NextViewChangeConfirmations()))
		}
		pp := m.Message()
		wneed(pp.IsValid())
		term = fmt.Sprintf("NV(%d;%d;%d;%d;[%s];%s;PPC(%s;%s))", uint16(h.MessageType()), uint64(h.InstanceId()), uint64(h.BlockHeight()), uint64(h.View()),
			strings.Join(tvs, ","), wreadS(m.Sender()), wreadR(pp.SignedHeader()), wreadS(pp.Sender()))
	default:
		panic(wireBad{})
	}
	return
}

func wreadBP(raw []byte) (term string) {
	defer func() {
		if r := recover(); r != nil {
			if _, ok := r.(wireBad); ok {
				term = "invalid"
			} else {
				term = "PANIC"
			}
		}
	}()
	p := protocol.BlockProofReader(raw)
	wneed(p.IsValid())
	var ts []string
	for it := p.NodesIterator(); it.HasNext(); {
		ts = append(ts, wreadS(it.NextNodes()))
	}
	return fmt.Sprintf("BP(%s;[%s];%s)", wreadR(p.BlockRef()), strings.Join(ts, ","), wx(p.RandomSeedSignature()))
}

// ---- TERMs from intended values (never from reading the encoded bytes back)

func tR(t protocol.MessageType, inst primitives.InstanceId, h primitives.BlockHeight, v primitives.View, hash []byte) string {
	return fmt.Sprintf("R(%d;%d;%d;%d;%s)", uint16(t), uint64(inst), uint64(h), uint64(v), wx(hash))
}

func tS(id, sig []byte) string { return fmt.Sprintf("S(%s;%s)", wx(id), wx(sig)) }

// sigs verifies every signature reachable in a content against the raw bytes the reader returns;
// it lists those that fail.
func wireSigFailures(km *wireKM, raw []byte) []string {
	var bad []string
	chk := func(what string, h primitives.BlockHeight, signed []byte, s *protocol.SenderSignature) {
		if km.VerifyConsensusMessage(h, signed, s) != nil {
			bad = append(bad, what)
		}
	}
	proof := func(where string, p *protocol.PreparedProof) {
		if p == nil || len(p.Raw()) == 0 {
			return
		}
		chk(where+"/proof.preprepare", p.PreprepareBlockRef().BlockHeight(), p.PreprepareBlockRef().Raw(), p.PreprepareSender())
		i := 0
		for it := p.PrepareSendersIterator(); it.HasNext(); i++ {
			chk(fmt.Sprintf("%s/proof.prepare[%d]", where, i), p.PrepareBlockRef().BlockHeight(), p.PrepareBlockRef().Raw(), it.NextPrepareSenders())
		}
	}
	vc := func(where string, v *protocol.ViewChangeMessageContent) {
		chk(where, v.SignedHeader().BlockHeight(), v.SignedHeader().Raw(), v.Sender())
		proof(where, v.SignedHeader().PreparedProof())
	}
	c := protocol.LeanhelixContentReader(raw)
	switch {
	case c.IsMessagePreprepareMessage():
		m := c.PreprepareMessage()
		chk("preprepare", m.SignedHeader().BlockHeight(), m.SignedHeader().Raw(), m.Sender())
	case c.IsMessagePrepareMessage():
		m := c.PrepareMessage()
		chk("prepare", m.SignedHeader().BlockHeight(), m.SignedHeader().Raw(), m.Sender())
	case c.IsMessageCommitMessage():
		m := c.CommitMessage()
		chk("commit", m.SignedHeader().BlockHeight(), m.SignedHeader().Raw(), m.Sender())
	case c.IsMessageViewChangeMessage():
		vc("viewchange", c.ViewChangeMessage())
	case c.IsMessageNewViewMessage():
		m := c.NewViewMessage()
		chk("newview", m.SignedHeader().BlockHeight(), m.SignedHeader().Raw(), m.Sender())
		chk("newview/preprepare", m.Message().SignedHeader().BlockHeight(), m.Message().SignedHeader().Raw(), m.Message().Sender())
		i := 0
		for it := m.SignedHeader().ViewChangeConfirmationsIterator(); it.HasNext(); i++ {
			vc(fmt.Sprintf("newview/vote[%d]", i), it.NextViewChangeConfirmations())
		}
	}
	return bad
}

func suiteWire(c *Ctx) {
	g := &wireGen{c: c, maxLen: 256, maxArr: 20}
	r := c.Rng
	rounds := 60
	nB := 150
	if c.Thorough() {
		rounds = 600
		nB = 1500
	}
	// emit the three comparisons for one message built by the real code
	recycled := &interfaces.ConsensusRawMessage{} // a transport may recycle one inbound struct: parsing must depend on the bytes alone
	emit := func(kind string, term string, m interfaces.ConsensusMessage, km *wireKM) {
		raw := m.ToConsensusRawMessage()
		content := append([]byte{}, raw.Content...)
		recycled.Content, recycled.Block = content, raw.Block
		if pm, err := interfaces.ParseConsensusMessage(recycled); err != nil || pm == nil || pm.MessageType() != m.MessageType() || pm.View() != m.View() ||
			pm.BlockHeight() != m.BlockHeight() || !bytes.Equal(pm.SenderMemberId(), m.SenderMemberId()) {
			c.Violation("C20", "parse-depends-on-history", fmt.Sprintf("%s: parsing a recycled raw-message struct that now holds these bytes does not give this message (err=%v)", kind, err), "content="+hex.EncodeToString(content))
		}
		hx := hex.EncodeToString(content)
		c.Emit("enc "+term, hx)
		rterm, rhdr := wreadContent(content)
		c.Emit("dec "+hx, rterm)
		c.Emit("hdr "+hx, rhdr)
		c.Class("factory/" + kind)
		c.Nontrivial(fmt.Sprintf("factory/%s/%d", kind, len(content)/64))
		// the property's own predicate, on the real code only
		if rterm != term {
			c.Violation("C20", "roundtrip-changes-fields", fmt.Sprintf("%s: the re-read message differs from what was built: built %s, read %s", kind, term, rterm), "content="+hx)
		}
		if _, err := interfaces.ParseConsensusMessage(&interfaces.ConsensusRawMessage{Content: content, Block: raw.Block}); err != nil {
			c.Violation("C20", "factory-message-rejected", fmt.Sprintf("%s built by the factory is rejected on receipt: %v", kind, err), "content="+hx)
		}
		back := interfaces.ToConsensusMessage(&interfaces.ConsensusRawMessage{Content: content, Block: raw.Block})
		if back == nil || back.MessageType() != m.MessageType() || back.InstanceId() != m.InstanceId() || back.BlockHeight() != m.BlockHeight() ||
			back.View() != m.View() || !bytes.Equal(back.SenderMemberId(), m.SenderMemberId()) {
			c.Violation("C20", "roundtrip-changes-fields", fmt.Sprintf("%s: top-level accessors differ after the round trip", kind), "content="+hx)
		}
		if bad := wireSigFailures(km, content); len(bad) > 0 {
			c.Violation("C20", "signature-lost-in-roundtrip", fmt.Sprintf("%s: signatures that verified when built no longer verify over the re-read bytes: %v", kind, bad), "content="+hx)
		}
	}
	for i := 0; i < rounds; i++ {
		inst := primitives.InstanceId(g.ru64())
		h := primitives.BlockHeight(g.ru64())
		v := primitives.View(g.ru64())
		hash := g.rbytes()
		blk := &FakeBlock{H: uint64(h), Id: uint64(i)}
		nmem := r.Intn(g.maxArr + 1)
		if r.Intn(3) == 0 {
			nmem = r.Intn(4)
		}
		ids := make([][]byte, nmem+2)
		facts := make([]*messagesfactory.MessageFactory, nmem+2)
		km := &wireKM{}
		for k := range ids {
			ids[k] = g.rbytes()
			if r.Intn(4) != 0 && len(ids[k]) == 0 {
				ids[k] = []byte{byte(k), 0xaa}
			}
			facts[k] = messagesfactory.NewMessageFactory(inst, &wireKM{me: ids[k]}, ids[k], g.ru64())
		}
		ldr, me := facts[0], facts[1]
		sign := func(id []byte, hdr []byte) []byte { return wireSig("msg", id, uint64(h), hdr) }
		refRaw := func(t protocol.MessageType, vv primitives.View) []byte {
			return (&protocol.BlockRefBuilder{MessageType: t, InstanceId: inst, BlockHeight: h, View: vv, BlockHash: hash}).Build().Raw()
		}
		// PREPREPARE
		ppm := ldr.CreatePreprepareMessage(h, v, blk, hash)
		tPPc := fmt.Sprintf("%s;%s", tR(protocol.LEAN_HELIX_PREPREPARE, inst, h, v, hash), tS(ids[0], sign(ids[0], refRaw(protocol.LEAN_HELIX_PREPREPARE, v))))
		emit("preprepare", "PP("+tPPc+")", ppm, km)
		// PREPAREs
		var pms []*interfaces.PrepareMessage
		var tPs []string
		for k := 1; k < len(facts); k++ {
			pm := facts[k].CreatePrepareMessage(h, v, hash)
			pms = append(pms, pm)
			tPs = append(tPs, tS(ids[k], sign(ids[k], refRaw(protocol.LEAN_HELIX_PREPARE, v))))
		}
		emit("prepare", fmt.Sprintf("PR(%s;%s)", tR(protocol.LEAN_HELIX_PREPARE, inst, h, v, hash), tPs[0]), pms[0], km)
		// COMMITs and the block proof
		var cms []*interfaces.CommitMessage
		var tCs []string
		for k := 1; k < len(facts); k++ {
			cm := facts[k].CreateCommitMessage(h, v, hash)
			cms = append(cms, cm)
			tCs = append(tCs, tS(ids[k], sign(ids[k], refRaw(protocol.LEAN_HELIX_COMMIT, v))))
		}
		emit("commit", fmt.Sprintf("CM(%s;%s;%s)", tR(protocol.LEAN_HELIX_COMMIT, inst, h, v, hash), tCs[0], wx(cms[0].Content().Share())), cms[0], km)
		// received variants: the same field values in other bytes (non-zero alignment slack, or trailing
		// bytes inside the header), signed by the sender over exactly those bytes.  If the receive gate
		// lets one through, its signature must still verify once the reference is re-encoded from its
		// field values (that is what prepared proofs and block proofs do) - otherwise the round trip loses it.
		for vk := 0; vk < 2; vk++ {
			for _, t := range []protocol.MessageType{protocol.LEAN_HELIX_PREPARE, protocol.LEAN_HELIX_COMMIT} {
				canon := refRaw(t, v)
				var alt []byte
				if vk == 0 {
					alt = slackBytes(canon)
				} else {
					alt = append(append([]byte{}, canon...), 0, 0, 0, 0)
				}
				if alt == nil {
					continue
				}
				sender := &protocol.SenderSignatureBuilder{MemberId: ids[1], Signature: sign(ids[1], alt)}
				var rawm *interfaces.ConsensusRawMessage
				if t == protocol.LEAN_HELIX_PREPARE {
					rawm = interfaces.NewPrepareMessage((&protocol.PrepareContentBuilder{SignedHeader: protocol.BlockRefBuilderFromRaw(alt), Sender: sender}).Build()).ToConsensusRawMessage()
				} else {
					rawm = interfaces.NewCommitMessage((&protocol.CommitContentBuilder{SignedHeader: protocol.BlockRefBuilderFromRaw(alt), Sender: sender, Share: cms[0].Content().Share()}).Build()).ToConsensusRawMessage()
				}
				c.Class(fmt.Sprintf("variant/%d/%d", vk, t))
				parsed, err := interfaces.ParseConsensusMessage(rawm)
				if err != nil || parsed == nil {
					continue // dropped at the gate: nothing can be lost
				}
				c.Nontrivial(fmt.Sprintf("variant-accepted/%d/%d", vk, t))
				if km.VerifyConsensusMessage(h, canon, sender.Build()) != nil {
					c.Violation("C20", "accepted-content-loses-signature-on-reencoding",
						fmt.Sprintf("a %v whose signed header is not in the builders' encoding (variant %d) passes the receive gate; re-encoded from its field values (as proofs do) the sender's signature no longer verifies", t, vk),
						"content="+hex.EncodeToString(rawm.Content))
				}
			}
		}
		bp := blockproof.GenerateLeanHelixBlockProof(km, cms)
		bpRaw := append([]byte{}, bp.Raw()...)
		// the aggregate the proof must carry: over the random-seed shares of exactly these COMMITs (computed here, not read from the proof)
		var shares []*protocol.SenderSignature
		for k, cm := range cms {
			shares = append(shares, (&protocol.SenderSignatureBuilder{MemberId: ids[k+1], Signature: primitives.Signature(cm.Content().Share())}).Build())
		}
		wantSeed := km.AggregateRandomSeed(h, shares)
		if !bytes.Equal(wantSeed, bp.RandomSeedSignature()) {
			c.Violation("C20", "blockproof-seed-not-from-shares", "the random seed signature of the generated block proof is not the aggregate of the COMMITs' shares", "proof="+hex.EncodeToString(bpRaw))
		}
		bpTerm := fmt.Sprintf("BP(%s;[%s];%s)", tR(protocol.LEAN_HELIX_COMMIT, inst, h, v, hash), strings.Join(tCs, ","), wx(wantSeed))
		c.Emit("encbp "+bpTerm, hex.EncodeToString(bpRaw))
		c.Emit("decbp "+hex.EncodeToString(bpRaw), wreadBP(bpRaw))
		c.Class("factory/blockproof")
		c.Nontrivial(fmt.Sprintf("factory/blockproof/%d", len(cms)))
		if got := wreadBP(bpRaw); got != bpTerm {
			c.Violation("C20", "roundtrip-changes-fields", fmt.Sprintf("block proof re-read differs: built %s, read %s", bpTerm, got), "proof="+hex.EncodeToString(bpRaw))
		}
		rb := protocol.BlockProofReader(bpRaw)
		k := 0
		for it := rb.NodesIterator(); it.HasNext(); k++ {
			if km.VerifyConsensusMessage(rb.BlockRef().BlockHeight(), rb.BlockRef().Raw(), it.NextNodes()) != nil {
				c.Violation("C20", "signature-lost-in-roundtrip", fmt.Sprintf("block proof: COMMIT signature %d no longer verifies over the proof's block reference", k), "proof="+hex.EncodeToString(bpRaw))
			}
		}
		// VIEW_CHANGE with and without a prepared proof
		nv := v + 1
		if v == ^primitives.View(0) {
			nv = v
		}
		tProof := fmt.Sprintf("P(%s;%s;%s;[%s])", tR(protocol.LEAN_HELIX_PREPREPARE, inst, h, v, hash), tS(ids[0], sign(ids[0], refRaw(protocol.LEAN_HELIX_PREPREPARE, v))),
			tR(protocol.LEAN_HELIX_PREPARE, inst, h, v, hash), strings.Join(tPs, ","))
		pmsgs := &preparedmessages.PreparedMessages{PreprepareMessage: ppm, PrepareMessages: pms}
		vcHdrRaw := func(proof *protocol.PreparedProofBuilder) []byte {
			return (&protocol.ViewChangeHeaderBuilder{MessageType: protocol.LEAN_HELIX_VIEW_CHANGE, InstanceId: inst, BlockHeight: h, View: nv, PreparedProof: proof}).Build().Raw()
		}
		proofB := messagesfactory.CreatePreparedProofBuilderFromPreparedMessages(pmsgs)
		vcm := me.CreateViewChangeMessage(h, nv, pmsgs)
		tV1 := fmt.Sprintf("V(%d;%d;%d;%d;%s;%s)", uint16(protocol.LEAN_HELIX_VIEW_CHANGE), uint64(inst), uint64(h), uint64(nv), tProof, tS(ids[1], sign(ids[1], vcHdrRaw(proofB))))
		emit("viewchange-proof", "VC("+tV1+")", vcm, km)
		// a received PREPARE whose SENDER section is readable but not in the builders' encoding (trailing bytes; the
		// signature is valid): if the receive gate lets it through and it ends up among the prepared messages, the
		// VIEW_CHANGE the factory builds from them must still be accepted on receipt and keep every signature
		if len(pms) > 0 {
			canonSender := (&protocol.SenderSignatureBuilder{MemberId: ids[1], Signature: sign(ids[1], refRaw(protocol.LEAN_HELIX_PREPARE, v))}).Build().Raw()
			altSender := append(append([]byte{}, canonSender...), 0, 0, 0, 0)
			pc := (&protocol.PrepareContentBuilder{SignedHeader: protocol.BlockRefBuilderFromRaw(refRaw(protocol.LEAN_HELIX_PREPARE, v)), Sender: protocol.SenderSignatureBuilderFromRaw(altSender)}).Build()
			rawm := interfaces.NewPrepareMessage(pc).ToConsensusRawMessage()
			c.Class("variant/sender-section")
			if parsed, err := interfaces.ParseConsensusMessage(rawm); err == nil && parsed != nil {
				if pmV, ok := parsed.(*interfaces.PrepareMessage); ok {
					c.Nontrivial("variant-accepted/sender-section")
					pmsV := append([]*interfaces.PrepareMessage{pmV}, pms[1:]...)
					rawV := me.CreateViewChangeMessage(h, nv, &preparedmessages.PreparedMessages{PreprepareMessage: ppm, PrepareMessages: pmsV}).ToConsensusRawMessage()
					content := append([]byte{}, rawV.Content...)
					if _, err := interfaces.ParseConsensusMessage(&interfaces.ConsensusRawMessage{Content: content, Block: rawV.Block}); err != nil {
						c.Violation("C20", "factory-message-rejected", fmt.Sprintf("a VIEW_CHANGE built by the factory from prepared messages one of which was received with a non-canonical sender section is rejected on receipt: %v", err), "content="+hex.EncodeToString(content))
					}
					if bad := wireSigFailures(km, content); len(bad) > 0 {
						c.Violation("C20", "signature-lost-in-roundtrip", fmt.Sprintf("viewchange built from prepared messages one of which was received with a non-canonical sender section: %v no longer verify over the re-read bytes", bad), "content="+hex.EncodeToString(content))
					}
				}
			}
		}
		// the same VIEW_CHANGE built the way the term builds it: the prepared messages come out of the library's own
		// storage and extractor, and the log also holds a correctly signed PREPARE of that view for ANOTHER hash
		// (a PREPARE is logged whatever its hash): every signature inside the proof must still verify after the
		// round trip.  Monitor only (the order of the extracted PREPAREs is the storage's business).
		{
			st := storage.NewInMemoryStorage()
			st.StorePreprepare(ppm)
			otherHash := append(append([]byte{}, hash...), 0x5a)
			st.StorePrepare(facts[len(facts)-1].CreatePrepareMessage(h, v, otherHash))
			var cmem []interfaces.CommitteeMember
			for _, id := range ids {
				cmem = append(cmem, interfaces.CommitteeMember{Id: id, Weight: 1})
			}
			for _, pm := range pms {
				st.StorePrepare(pm)
			}
			if ext := preparedmessages.ExtractPreparedMessages(h, v, st, cmem); ext != nil {
				content := append([]byte{}, me.CreateViewChangeMessage(h, nv, ext).ToConsensusRawMessage().Content...)
				if bad := wireSigFailures(km, content); len(bad) > 0 {
					c.Violation("C20", "signature-lost-in-roundtrip", fmt.Sprintf("viewchange built from the prepared messages the extractor takes out of a log that also holds a PREPARE for another hash: signatures that verified when stored no longer verify over the re-read bytes: %v", bad), "content="+hex.EncodeToString(content))
				}
				c.Class("factory/viewchange-proof-extracted")
			} else {
				c.Class("factory/viewchange-proof-extracted/no-quorum")
			}
		}
		vcm0 := me.CreateViewChangeMessage(h, nv, nil)
		tV0 := fmt.Sprintf("V(%d;%d;%d;%d;-;%s)", uint16(protocol.LEAN_HELIX_VIEW_CHANGE), uint64(inst), uint64(h), uint64(nv), tS(ids[1], sign(ids[1], vcHdrRaw(nil))))
		emit("viewchange", "VC("+tV0+")", vcm0, km)
		// NEW_VIEW re-encoding 0..20 votes
		var vcms []*interfaces.ViewChangeMessage
		var tVs []string
		for k := 1; k < len(facts); k++ {
			var pmk *preparedmessages.PreparedMessages
			tp := "-"
			var pb *protocol.PreparedProofBuilder
			if r.Intn(2) == 0 {
				pmk, tp, pb = pmsgs, tProof, proofB
			}
			vcms = append(vcms, facts[k].CreateViewChangeMessage(h, nv, pmk))
			tVs = append(tVs, fmt.Sprintf("V(%d;%d;%d;%d;%s;%s)", uint16(protocol.LEAN_HELIX_VIEW_CHANGE), uint64(inst), uint64(h), uint64(nv), tp, tS(ids[k], sign(ids[k], vcHdrRaw(pb)))))
		}
		if r.Intn(5) == 0 {
			vcms, tVs = nil, nil
		}
		confs := interfaces.ExtractConfirmationsFromViewChangeMessages(vcms)
		ppc := ldr.CreatePreprepareMessageContentBuilder(h, nv, blk, hash)
		nvm := ldr.CreateNewViewMessage(h, nv, ppc, confs, blk)
		nvHdrRaw := (&protocol.NewViewHeaderBuilder{MessageType: protocol.LEAN_HELIX_NEW_VIEW, InstanceId: inst, BlockHeight: h, View: nv,
			ViewChangeConfirmations: interfaces.ExtractConfirmationsFromViewChangeMessages(vcms)}).Build().Raw()
		tNV := fmt.Sprintf("NV(%d;%d;%d;%d;[%s];%s;PPC(%s;%s))", uint16(protocol.LEAN_HELIX_NEW_VIEW), uint64(inst), uint64(h), uint64(nv), strings.Join(tVs, ","),
			tS(ids[0], sign(ids[0], nvHdrRaw)), tR(protocol.LEAN_HELIX_PREPREPARE, inst, h, nv, hash), tS(ids[0], sign(ids[0], refRaw(protocol.LEAN_HELIX_PREPREPARE, nv))))
		emit("newview", tNV, nvm, km)
		c.Nontrivial(fmt.Sprintf("factory/votes/%d", len(vcms)))
		// a history on ONE factory (the library keeps one per term): after the long NEW_VIEW header the same
		// factory signs a VIEW_CHANGE with a proof, one without, and a NEW_VIEW with fewer votes, for the next view
		nv2 := nv + 1
		if nv == ^primitives.View(0) {
			nv2 = nv
		}
		vcHdrRaw2 := func(proof *protocol.PreparedProofBuilder) []byte {
			return (&protocol.ViewChangeHeaderBuilder{MessageType: protocol.LEAN_HELIX_VIEW_CHANGE, InstanceId: inst, BlockHeight: h, View: nv2, PreparedProof: proof}).Build().Raw()
		}
		vcmL := ldr.CreateViewChangeMessage(h, nv2, pmsgs)
		emit("viewchange-proof-after-newview", fmt.Sprintf("VC(V(%d;%d;%d;%d;%s;%s))", uint16(protocol.LEAN_HELIX_VIEW_CHANGE), uint64(inst), uint64(h), uint64(nv2), tProof, tS(ids[0], sign(ids[0], vcHdrRaw2(proofB)))), vcmL, km)
		vcmL0 := ldr.CreateViewChangeMessage(h, nv2, nil)
		emit("viewchange-after-newview", fmt.Sprintf("VC(V(%d;%d;%d;%d;-;%s))", uint16(protocol.LEAN_HELIX_VIEW_CHANGE), uint64(inst), uint64(h), uint64(nv2), tS(ids[0], sign(ids[0], vcHdrRaw2(nil)))), vcmL0, km)
		half := len(vcms) / 2
		confs2 := interfaces.ExtractConfirmationsFromViewChangeMessages(vcms[:half])
		ppc2 := ldr.CreatePreprepareMessageContentBuilder(h, nv2, blk, hash)
		nvm2 := ldr.CreateNewViewMessage(h, nv2, ppc2, confs2, blk)
		nvHdrRaw2 := (&protocol.NewViewHeaderBuilder{MessageType: protocol.LEAN_HELIX_NEW_VIEW, InstanceId: inst, BlockHeight: h, View: nv2,
			ViewChangeConfirmations: interfaces.ExtractConfirmationsFromViewChangeMessages(vcms[:half])}).Build().Raw()
		tNV2 := fmt.Sprintf("NV(%d;%d;%d;%d;[%s];%s;PPC(%s;%s))", uint16(protocol.LEAN_HELIX_NEW_VIEW), uint64(inst), uint64(h), uint64(nv2), strings.Join(tVs[:half], ","),
			tS(ids[0], sign(ids[0], nvHdrRaw2)), tR(protocol.LEAN_HELIX_PREPREPARE, inst, h, nv2, hash), tS(ids[0], sign(ids[0], refRaw(protocol.LEAN_HELIX_PREPREPARE, nv2))))
		emit("newview-after-newview", tNV2, nvm2, km)
	}
	// ---- Part B: builder level, whole field range, and mutated buffers
	for i := 0; i < nB; i++ {
		kind := i % 5
		b, term := g.genContent(kind)
		raw := b.Build().Raw()
		hx := hex.EncodeToString(raw)
		c.Emit("enc "+term, hx)
		rt, rh := wreadContent(raw)
		c.Emit("dec "+hx, rt)
		c.Emit("hdr "+hx, rh)
		c.Class(fmt.Sprintf("builder/kind%d", kind))
		if rt != term {
			c.Violation("C20", "roundtrip-changes-fields", fmt.Sprintf("builder-level message of kind %d: read %s, built %s", kind, rt, term), "content="+hx)
		}
		for j := 0; j < 3; j++ {
			m, how := g.mutate(raw)
			mt, mh := wreadContent(m)
			if mt == "PANIC" {
				c.Class("mutated/" + how + "/reader-panics")
				continue // the readers panic (uint32 wrap-around); the receive gate recovers (C12), no model answer to compare
			}
			c.Emit("dec "+hex.EncodeToString(m), mt)
			if mt == "invalid" {
				c.Class("mutated/" + how + "/invalid")
			} else {
				// the signed bytes are compared only when every level reads (the model's signedRaw needs
				// just the outer levels, the strict Go reading fails as a whole)
				c.Emit("hdr "+hex.EncodeToString(m), mh)
				c.Class("mutated/" + how + "/valid")
			}
		}
		if i%3 == 0 {
			bb, bt := g.genBP()
			braw := bb.Build().Raw()
			c.Emit("encbp "+bt, hex.EncodeToString(braw))
			c.Emit("decbp "+hex.EncodeToString(braw), wreadBP(braw))
			m, how := g.mutate(braw)
			if t := wreadBP(m); t != "PANIC" {
				c.Emit("decbp "+hex.EncodeToString(m), t)
				c.Class("mutated-bp/" + how)
			}
		}
	}
}

func (g *wireGen) genR() (*protocol.BlockRefBuilder, string) {
	m, i, h, v, hash := g.ru16(), g.ru64(), g.ru64(), g.ru64(), g.rbytes()
	return &protocol.BlockRefBuilder{MessageType: protocol.MessageType(m), InstanceId: primitives.InstanceId(i), BlockHeight: primitives.BlockHeight(h),
		View: primitives.View(v), BlockHash: primitives.BlockHash(hash)}, fmt.Sprintf("R(%d;%d;%d;%d;%s)", m, i, h, v, wx(hash))
}

func (g *wireGen) genS() (*protocol.SenderSignatureBuilder, string) {
	id, sig := g.rbytes(), g.rbytes()
	return &protocol.SenderSignatureBuilder{MemberId: primitives.MemberId(id), Signature: primitives.Signature(sig)}, tS(id, sig)
}

func (g *wireGen) arrLen() int {
	if g.c.Rng.Intn(3) == 0 {
		return g.c.Rng.Intn(g.maxArr + 1)
	}
	return g.c.Rng.Intn(5)
}

func (g *wireGen) genSs() ([]*protocol.SenderSignatureBuilder, string) {
	n := g.arrLen()
	var bs []*protocol.SenderSignatureBuilder
	var ts []string
	for k := 0; k < n; k++ {
		b, t := g.genS()
		bs = append(bs, b)
		ts = append(ts, t)
	}
	return bs, "[" + strings.Join(ts, ",") + "]"
}

func (g *wireGen) genP() (*protocol.PreparedProofBuilder, string) {
	if g.c.Rng.Intn(3) == 0 {
		return nil, "-"
	}
	r1, t1 := g.genR()
	s1, t2 := g.genS()
	r2, t3 := g.genR()
	ss, t4 := g.genSs()
	return &protocol.PreparedProofBuilder{PreprepareBlockRef: r1, PreprepareSender: s1, PrepareBlockRef: r2, PrepareSenders: ss},
		fmt.Sprintf("P(%s;%s;%s;%s)", t1, t2, t3, t4)
}

func (g *wireGen) genV() (*protocol.ViewChangeMessageContentBuilder, string) {
	m, i, h, v := g.ru16(), g.ru64(), g.ru64(), g.ru64()
	p, tp := g.genP()
	s, ts := g.genS()
	return &protocol.ViewChangeMessageContentBuilder{
		SignedHeader: &protocol.ViewChangeHeaderBuilder{MessageType: protocol.MessageType(m), InstanceId: primitives.InstanceId(i),
			BlockHeight: primitives.BlockHeight(h), View: primitives.View(v), PreparedProof: p},
		Sender: s,
	}, fmt.Sprintf("V(%d;%d;%d;%d;%s;%s)", m, i, h, v, tp, ts)
}

func (g *wireGen) genContent(kind int) (*protocol.LeanhelixContentBuilder, string) {
	switch kind {
	case 0:
		r, tr := g.genR()
		s, ts := g.genS()
		return &protocol.LeanhelixContentBuilder{Message: protocol.LEANHELIX_CONTENT_MESSAGE_PREPREPARE_MESSAGE,
			PreprepareMessage: &protocol.PreprepareContentBuilder{SignedHeader: r, Sender: s}}, fmt.Sprintf("PP(%s;%s)", tr, ts)
	case 1:
		r, tr := g.genR()
		s, ts := g.genS()
		return &protocol.LeanhelixContentBuilder{Message: protocol.LEANHELIX_CONTENT_MESSAGE_PREPARE_MESSAGE,
			PrepareMessage: &protocol.PrepareContentBuilder{SignedHeader: r, Sender: s}}, fmt.Sprintf("PR(%s;%s)", tr, ts)
	case 2:
		r, tr := g.genR()
		s, ts := g.genS()
		sh := g.rbytes()
		return &protocol.LeanhelixContentBuilder{Message: protocol.LEANHELIX_CONTENT_MESSAGE_COMMIT_MESSAGE,
			CommitMessage: &protocol.CommitContentBuilder{SignedHeader: r, Sender: s, Share: primitives.RandomSeedSignature(sh)}},
			fmt.Sprintf("CM(%s;%s;%s)", tr, ts, wx(sh))
	case 3:
		v, tv := g.genV()
		return &protocol.LeanhelixContentBuilder{Message: protocol.LEANHELIX_CONTENT_MESSAGE_VIEW_CHANGE_MESSAGE, ViewChangeMessage: v}, fmt.Sprintf("VC(%s)", tv)
	default:
		m, i, h, v := g.ru16(), g.ru64(), g.ru64(), g.ru64()
		n := g.arrLen()
		var vs []*protocol.ViewChangeMessageContentBuilder
		var tvs []string
		for k := 0; k < n; k++ {
			b, t := g.genV()
			vs = append(vs, b)
			tvs = append(tvs, t)
		}
		s, ts := g.genS()
		r, tr := g.genR()
		s2, ts2 := g.genS()
		hdr := &protocol.NewViewHeaderBuilder{MessageType: protocol.MessageType(m), InstanceId: primitives.InstanceId(i),
			BlockHeight: primitives.BlockHeight(h), View: primitives.View(v), ViewChangeConfirmations: vs}
		return &protocol.LeanhelixContentBuilder{Message: protocol.LEANHELIX_CONTENT_MESSAGE_NEW_VIEW_MESSAGE,
				NewViewMessage: &protocol.NewViewMessageContentBuilder{SignedHeader: hdr, Sender: s,
					Message: &protocol.PreprepareContentBuilder{SignedHeader: r, Sender: s2}}},
			fmt.Sprintf("NV(%d;%d;%d;%d;[%s];%s;PPC(%s;%s))", m, i, h, v, strings.Join(tvs, ","), ts, tr, ts2)
	}
}

func (g *wireGen) genBP() (*protocol.BlockProofBuilder, string) {
	r, tr := g.genR()
	ss, tss := g.genSs()
	seed := g.rbytes()
	return &protocol.BlockProofBuilder{BlockRef: r, Nodes: ss, RandomSeedSignature: primitives.RandomSeedSignature(seed)},
		fmt.Sprintf("BP(%s;%s;%s)", tr, tss, wx(seed))
}

func (g *wireGen) mutate(raw []byte) ([]byte, string) {
	r := g.c.Rng
	b := append([]byte{}, raw...)
	switch r.Intn(4) {
	case 0:
		if len(b) > 0 {
			b = b[:r.Intn(len(b))]
		}
		return b, "truncate"
	case 1:
		t := make([]byte, 1+r.Intn(9))
		r.Read(t)
		return append(b, t...), "trailing"
	case 2:
		if len(b) > 0 {
			k := r.Intn(len(b))
			b[k] = byte(int(b[k]) + r.Intn(9) - 4)
		}
		return b, "byte"
	default:
		if len(b) > 4 {
			b = b[:4*r.Intn(len(b)/4+1)]
		}
		return b, "truncate4"
	}
}
