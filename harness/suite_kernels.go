package main

import (
	"context"
	"fmt"
	"math"
	"math/big"
	"strings"
	"time"

	Electiontrigger "github.com/orbs-network/lean-helix-go/services/electiontrigger"
	"github.com/orbs-network/lean-helix-go/services/interfaces"
	"github.com/orbs-network/lean-helix-go/services/termincommittee"
	"github.com/orbs-network/lean-helix-go/spec/types/go/primitives"
	"github.com/orbs-network/lean-helix-go/state"
)

func init() {
	suites["leader"] = suiteLeader
	suites["timeout"] = suiteTimeout
	suites["state"] = suiteState
	suites["contexts"] = suiteContexts
}

// ---------- leader rotation (C18)

func callLeader(view uint64, ms []interfaces.CommitteeMember) (id primitives.MemberId, panicked bool) {
	defer func() {
		if r := recover(); r != nil {
			panicked = true
		}
	}()
	return termincommittee.VerifCalcLeader(primitives.View(view), ms), false
}

func suiteLeader(c *Ctx) {
	r := c.Rng
	sizes := []int{4, 5, 7, 64}
	if c.Thorough() {
		sizes = nil
		for n := 4; n <= 64; n++ {
			sizes = append(sizes, n)
		}
	}
	sizes = append(sizes, 1, 2, 3, 100)
	for _, n := range sizes {
		ms := make([]interfaces.CommitteeMember, n)
		for i := range ms {
			ms[i] = interfaces.CommitteeMember{Id: []byte{byte(i), byte(n), byte(r.Intn(256))}, Weight: primitives.MemberWeight(1 + r.Intn(4))}
		}
		var views []uint64
		for v := 0; v <= 4*n; v++ {
			views = append(views, uint64(v))
		}
		views = append(views, u64Boundaries...)
		// windows of n consecutive views at the interesting neighbourhoods (round robin)
		for _, base := range []uint64{1 << 31, 1 << 32, 1<<63 - uint64(n)/2, 1 << 63, ^uint64(0) - uint64(n) + 1, uint64(r.Int63()), r.Uint64()} {
			for i := 0; i < n; i++ {
				views = append(views, base+uint64(i))
			}
		}
		for i := 0; i < 50; i++ {
			views = append(views, randU64(r))
		}
		counts := map[string]int{}
		for k, v := range views {
			id, p := callLeader(v, ms)
			out := "panic"
			if !p {
				out = "ok " + hexid(id)
			}
			c.Emit(fmt.Sprintf("leader %d %s", v, fmtMembers(ms)), out)
			cls := "view<2^63"
			if v >= 1<<63 {
				cls = "view>=2^63"
			}
			c.Class(cls)
			c.Nontrivial(fmt.Sprintf("n%d/%s/%d", n, cls, v%uint64(n)))
			// monitor: leader is the member at position view mod n, never a panic
			want := ms[v%uint64(n)].Id
			if p {
				c.Violation("C18", "leader-panic", fmt.Sprintf("leader computation panicked for view=%d n=%d", v, n), fmt.Sprintf("leader %d %s", v, fmtMembers(ms)))
			} else if !id.Equal(want) {
				c.Violation("C18", "leader-wrong", fmt.Sprintf("leader of view=%d n=%d is %s, expected member at position %d", v, n, id, v%uint64(n)), fmt.Sprintf("leader %d %s", v, fmtMembers(ms)))
			}
			_ = k
			_ = counts
		}
	}
}

// ---------- election timeout formula (C19)

func suiteTimeout(c *Ctx) {
	r := c.Rng
	bases := []int64{1, 2, 3, 1000, int64(time.Millisecond), int64(4 * time.Second), int64(time.Second), int64(time.Minute), int64(time.Hour), 1 << 31, 1<<31 + 1, 1 << 40, 1<<62 - 1, 1 << 62, math.MaxInt64, 5, 7, 1<<33 - 1}
	for i := 0; i < 20; i++ {
		bases = append(bases, int64(randU64(r)>>1)|1)
	}
	if c.Thorough() {
		for i := 0; i < 400; i++ {
			bases = append(bases, int64(randU64(r)>>1)+1)
		}
	}
	bases = append(bases, 0, -1, -1000)
	maxI := big.NewInt(math.MaxInt64)
	for _, b := range bases {
		if b < 0 {
			// negative bases: only the correspondence is checked (behaviour is "return base")
		}
		tr := Electiontrigger.NewTimerBasedElectionTrigger(time.Duration(b), nil)
		var views []uint64
		for v := 0; v <= 200; v++ {
			views = append(views, uint64(v))
		}
		views = append(views, u64Boundaries...)
		for i := 0; i < 30; i++ {
			views = append(views, randU64(r))
		}
		var prev int64
		var prevView uint64
		for k, v := range views {
			d := int64(tr.CalcTimeout(primitives.View(v)))
			c.Emit(fmt.Sprintf("timeout %d %d", b, v), fmt.Sprintf("%d", d))
			cls := "v<63"
			if v >= 63 {
				cls = "v>=63"
			}
			c.Class(cls)
			if b > 0 {
				// monitor: base*2^v saturating at MaxInt64; positive; monotone
				want := new(big.Int).SetInt64(b)
				if v < 200 {
					want.Lsh(want, uint(v))
				} else {
					want.Set(maxI)
				}
				if want.Cmp(maxI) > 0 {
					want.Set(maxI)
				}
				c.Nontrivial(fmt.Sprintf("b%d/v%d", b, min64(v, 70)))
				if d <= 0 {
					c.Violation("C19", "timeout-nonpositive", fmt.Sprintf("CalcTimeout(base=%d, view=%d) = %d", b, v, d), fmt.Sprintf("timeout %d %d", b, v))
				} else if want.Cmp(big.NewInt(d)) != 0 {
					c.Violation("C19", "timeout-value", fmt.Sprintf("CalcTimeout(base=%d, view=%d) = %d, expected min(base*2^v, MaxInt64) = %s", b, v, d, want), fmt.Sprintf("timeout %d %d", b, v))
				}
				if k > 0 && k <= 200 && v > prevView && d < prev {
					c.Violation("C19", "timeout-not-monotone", fmt.Sprintf("CalcTimeout(base=%d) decreases from view %d (%d) to view %d (%d)", b, prevView, prev, v, d), fmt.Sprintf("timeout %d %d", b, v))
				}
			}
			prev, prevView = d, v
		}
	}
}

func min64(a uint64, b uint64) uint64 {
	if a < b {
		return a
	}
	return b
}

// ---------- state.State op sequences (C13, state part)

func suiteState(c *Ctx) {
	r := c.Rng
	run := func(ops []string) {
		st := state.NewState()
		c.Emit("reset", "reset")
		lastH, lastV := uint64(0), uint64(0)
		for _, op := range ops {
			var a uint64
			var kind string
			fmt.Sscanf(op, "%s %d", &kind, &a)
			switch kind {
			case "sh":
				hv, err := st.SetHeightAndResetView(primitives.BlockHeight(a))
				c.Emit(op, fmt.Sprintf("%s %d %d", okerr(err), uint64(hv.Height()), uint64(hv.View())))
			case "sv":
				hv, err := st.SetView(primitives.View(a))
				c.Emit(op, fmt.Sprintf("%s %d %d", okerr(err), uint64(hv.Height()), uint64(hv.View())))
			}
			hv := st.HeightView()
			h, v := uint64(hv.Height()), uint64(hv.View())
			c.Emit("get", fmt.Sprintf("%d %d", h, v))
			// monitor: lexicographic monotonicity; view resets exactly when the height increases
			if h < lastH || (h == lastH && v < lastV) {
				c.Violation("C13", "state-decreased", fmt.Sprintf("(height,view) went from (%d,%d) to (%d,%d)", lastH, lastV, h, v), strings.Join(ops, ";"))
			}
			if h > lastH && v != 0 {
				c.Violation("C13", "view-not-reset", fmt.Sprintf("height rose %d->%d but view is %d", lastH, h, v), strings.Join(ops, ";"))
			}
			lastH, lastV = h, v
		}
	}
	// exhaustive short sequences over a small alphabet
	alpha := []string{"sh 0", "sh 1", "sh 2", "sh 3", "sv 0", "sv 1", "sv 2"}
	maxLen := 4
	if c.Thorough() {
		maxLen = 6
	}
	var rec func(prefix []string, depth int)
	rec = func(prefix []string, depth int) {
		if depth == 0 {
			run(prefix)
			c.Nontrivial(strings.Join(prefix, ";"))
			c.Class(fmt.Sprintf("exhaustive/len%d", len(prefix)))
			return
		}
		for _, a := range alpha {
			rec(append(append([]string{}, prefix...), a), depth-1)
		}
	}
	for l := 1; l <= maxLen; l++ {
		rec(nil, l)
	}
	// long random sequences with skewed distributions and 64-bit extremes
	nseq := 200
	if c.Thorough() {
		nseq = 3000
	}
	for i := 0; i < nseq; i++ {
		n := 10 + r.Intn(200)
		ops := make([]string, n)
		cur := uint64(r.Intn(5))
		mode := r.Intn(4)
		for k := range ops {
			var a uint64
			switch mode {
			case 0:
				a = uint64(r.Intn(8))
			case 1: // mostly increasing
				cur += uint64(r.Intn(3))
				a = cur - uint64(r.Intn(2))
			case 2:
				a = randU64(r)
			default:
				a = uint64(r.Intn(4)) + cur
				if r.Intn(10) == 0 {
					cur++
				}
			}
			if r.Intn(3) == 0 {
				ops[k] = fmt.Sprintf("sh %d", a)
			} else {
				ops[k] = fmt.Sprintf("sv %d", a)
			}
		}
		run(ops)
		c.Class(fmt.Sprintf("random/mode%d", mode))
		c.Nontrivial(fmt.Sprintf("rand/%d", i))
	}
}

func okerr(err error) string {
	if err == nil {
		return "ok"
	}
	return "err"
}

// ---------- state.ViewContexts op sequences (C15, registry part)

func suiteContexts(c *Ctx) {
	r := c.Rng
	run := func(ops []string) {
		reg := state.NewViewContexts()
		c.Emit("reset", "reset")
		ids := map[context.Context]int{}
		var all []context.Context
		var keys []state.HeightView // key of each issued ctx
		type issued struct{ h, v uint64 }
		shutdown := false
		var wmH, wmV uint64
		hasWm := false
		for _, op := range ops {
			var kind string
			var h, v uint64
			fmt.Sscanf(op, "%s %d %d", &kind, &h, &v)
			hv := state.NewHeightView(primitives.BlockHeight(h), primitives.View(v))
			switch kind {
			case "for":
				ctx, err := reg.For(hv)
				if err != nil {
					if strings.Contains(err.Error(), "shutting down") {
						c.Emit(op, "err-shutdown")
					} else {
						c.Emit(op, "err-stale")
					}
					// monitor: an error is only allowed when shut down or superseded
					if !shutdown && !(hasWm && (h < wmH || (h == wmH && v < wmV))) {
						c.Violation("C15", "for-spurious-error", fmt.Sprintf("For(%d,%d) failed: %v", h, v, err), strings.Join(ops, ";"))
					}
				} else {
					id, ok := ids[ctx]
					if !ok {
						id = len(all)
						ids[ctx] = id
						all = append(all, ctx)
						keys = append(keys, *hv)
					}
					c.Emit(op, fmt.Sprintf("ctx %d", id))
					// monitors: never hand out a context for a superseded position, nor after shutdown, nor an already cancelled one
					if shutdown {
						c.Violation("C15", "for-after-shutdown", fmt.Sprintf("For(%d,%d) returned a context after Shutdown", h, v), strings.Join(ops, ";"))
					}
					if hasWm && (h < wmH || (h == wmH && v < wmV)) {
						c.Violation("C15", "for-superseded", fmt.Sprintf("For(%d,%d) returned a context although everything older than (%d,%d) was cancelled", h, v, wmH, wmV), strings.Join(ops, ";"))
					}
					if ctx.Err() != nil {
						c.Violation("C15", "for-returned-cancelled", fmt.Sprintf("For(%d,%d) returned an already cancelled context", h, v), strings.Join(ops, ";"))
					}
				}
			case "cancel":
				reg.CancelOlderThan(hv)
				c.Emit(op, "unit")
				if !hasWm || wmH < h || (wmH == h && wmV < v) {
					hasWm, wmH, wmV = true, h, v
				}
				for i, ctx := range all {
					k := keys[i]
					older := uint64(k.Height()) < h || (uint64(k.Height()) == h && uint64(k.View()) < v)
					if older && ctx.Err() == nil {
						c.Violation("C15", "older-not-cancelled", fmt.Sprintf("context of (%d,%d) still live after CancelOlderThan(%d,%d)", k.Height(), k.View(), h, v), strings.Join(ops, ";"))
					}
				}
			case "shutdown":
				reg.Shutdown()
				shutdown = true
				c.Emit(op, "unit")
			}
			bits := make([]byte, len(all))
			for i, ctx := range all {
				if ctx.Err() != nil {
					bits[i] = '1'
				} else {
					bits[i] = '0'
				}
				// monitor: a context of a current-or-future position is cancelled only by shutdown
				k := keys[i]
				notOlder := !hasWm || !(uint64(k.Height()) < wmH || (uint64(k.Height()) == wmH && uint64(k.View()) < wmV))
				if notOlder && !shutdown && ctx.Err() != nil {
					c.Violation("C15", "future-cancelled", fmt.Sprintf("context of (%d,%d) cancelled although only positions older than (%d,%d) were superseded", k.Height(), k.View(), wmH, wmV), strings.Join(ops, ";"))
				}
				if shutdown && ctx.Err() == nil {
					c.Violation("C15", "live-after-shutdown", "context still live after Shutdown", strings.Join(ops, ";"))
				}
			}
			c.Emit("status", "done="+string(bits))
			s := reg.VerifSnapshot()
			wm := "none"
			if s.HasWatermark {
				wm = fmt.Sprintf("%d/%d", uint64(s.Watermark.Height()), uint64(s.Watermark.View()))
			}
			var live []string
			for _, k := range s.Live {
				live = append(live, fmt.Sprintf("%d/%d", uint64(k.Height()), uint64(k.View())))
			}
			c.Emit("snap", fmt.Sprintf("wm=%s live=%s shutdown=%s", wm, joinOrDash(live), b2s(s.Shutdown)))
		}
	}
	var alpha []string
	for h := 1; h <= 2; h++ {
		for v := 0; v <= 1; v++ {
			alpha = append(alpha, fmt.Sprintf("for %d %d", h, v), fmt.Sprintf("cancel %d %d", h, v))
		}
	}
	alpha = append(alpha, "shutdown", "for 1 18446744073709551615")
	maxLen := 4
	if c.Thorough() {
		maxLen = 5
	}
	var rec func(prefix []string, depth int)
	rec = func(prefix []string, depth int) {
		if depth == 0 {
			run(prefix)
			c.Nontrivial(strings.Join(prefix, ";"))
			c.Class(fmt.Sprintf("exhaustive/len%d", len(prefix)))
			return
		}
		for _, a := range alpha {
			rec(append(append([]string{}, prefix...), a), depth-1)
		}
	}
	for l := 1; l <= maxLen; l++ {
		rec(nil, l)
	}
	nseq := 150
	if c.Thorough() {
		nseq = 3000
	}
	for i := 0; i < nseq; i++ {
		n := 5 + r.Intn(80)
		ops := make([]string, n)
		curH, curV := uint64(1), uint64(0)
		mode := r.Intn(3)
		for k := range ops {
			var h, v uint64
			switch mode {
			case 0:
				h, v = uint64(r.Intn(4)), uint64(r.Intn(4))
			case 1: // protocol-like: moving front, MaxUint64 umbrella views
				if r.Intn(6) == 0 {
					curH++
					curV = 0
				} else if r.Intn(3) == 0 {
					curV++
				}
				h, v = curH-uint64(r.Intn(2)), curV+uint64(r.Intn(3))
				if r.Intn(5) == 0 {
					v = math.MaxUint64
				}
				if r.Intn(8) == 0 && curV > 0 {
					v = curV - 1
				}
			default:
				h, v = randU64(r)%5, randU64(r)
			}
			switch x := r.Intn(20); {
			case x == 0 && r.Intn(4) == 0:
				ops[k] = "shutdown"
			case x < 12:
				ops[k] = fmt.Sprintf("for %d %d", h, v)
			default:
				ops[k] = fmt.Sprintf("cancel %d %d", h, v)
			}
		}
		run(ops)
		c.Class(fmt.Sprintf("random/mode%d", mode))
		c.Nontrivial(fmt.Sprintf("rand/%d", i))
	}
}
