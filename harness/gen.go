package main

import (
	"math/rand"
)

// boundary classes for 64-bit values
var u64Boundaries = func() []uint64 {
	var r []uint64
	add := func(base uint64, k int) {
		for d := -k; d <= k; d++ {
			r = append(r, base+uint64(int64(d)))
		}
	}
	for _, v := range []uint64{0, 1, 2, 3, 4} {
		r = append(r, v)
	}
	add(1<<31, 3)
	add(1<<32, 3)
	add(1<<53, 8)
	add(1<<62, 3)
	add(1<<63, 4)
	add(0, 6) // wraps: 2^64-6 .. 5
	for i := 5; i < 64; i++ {
		r = append(r, 1<<uint(i), 1<<uint(i)-1, 1<<uint(i)+1)
	}
	return r
}()

func randU64(r *rand.Rand) uint64 {
	switch r.Intn(6) {
	case 0:
		return u64Boundaries[r.Intn(len(u64Boundaries))]
	case 1:
		return uint64(r.Intn(10))
	case 2:
		return uint64(r.Intn(1000))
	case 3: // log-uniform
		return r.Uint64() >> uint(r.Intn(64))
	default:
		return r.Uint64()
	}
}

func newRand(seed int64) *rand.Rand { return rand.New(rand.NewSource(seed)) }
