package main

import (
	"fmt"
	"strings"
	"sync"
	"time"

	Electiontrigger "github.com/orbs-network/lean-helix-go/services/electiontrigger"
	"github.com/orbs-network/lean-helix-go/services/interfaces"
	"github.com/orbs-network/lean-helix-go/spec/types/go/primitives"
)

func init() { suites["trigger"] = suiteTrigger }

// suiteTrigger drives the REAL TimerBasedElectionTrigger (1 ms base timeout, views 0..3) with
// sequences of register / stop / settle (let real time pass with nobody reading) / await (read the
// election channel).  Margins are wide (timeouts <= 8 ms, settle 40 ms, await 200 ms), so the
// observable behaviour is deterministic; sequences run in parallel, results are emitted in order.
func suiteTrigger(c *Ctx) {
	r := c.Rng
	nseq := 26
	if c.Thorough() {
		nseq = 202
	}
	type seqRes struct {
		ops, outs []string
		viol      []Violation
	}
	seqs := make([][]string, nseq)
	fixed := [][]string{
		{"register 5 0", "await", "await"},
		{"register 5 0", "stop", "register 5 0", "await"},
		{"register 5 0", "settle", "register 5 1", "await", "await"},
		{"register 5 1", "register 5 1", "await", "await"},
		{"register 5 0", "settle", "stop", "await", "register 5 0", "await"},
		{"register 5 2", "stop", "await", "register 6 0", "await"},
		{"register 7 0", "await", "register 7 0", "await", "stop", "register 7 0", "await"},
		// twice in one trigger's life: the timer has fired, nobody reads, and the next registration / stop has to cancel the pending trigger
		{"register 5 0", "settle", "register 5 1", "settle", "register 5 2", "await", "await"},
		{"register 6 0", "settle", "stop", "register 6 1", "settle", "stop", "register 6 2", "await", "await"},
	}
	for i := range seqs {
		if i < len(fixed) {
			seqs[i] = fixed[i]
			continue
		}
		n := 3 + r.Intn(6)
		h, v := uint64(1+r.Intn(3)), uint64(0)
		for k := 0; k < n; k++ {
			switch x := r.Intn(10); {
			case x < 4:
				if r.Intn(3) == 0 {
					v = (v + 1) % 4
				}
				if r.Intn(5) == 0 {
					h++
					v = 0
				}
				seqs[i] = append(seqs[i], fmt.Sprintf("register %d %d", h, v))
			case x < 6:
				seqs[i] = append(seqs[i], "stop")
			case x < 7:
				seqs[i] = append(seqs[i], "settle")
			default:
				seqs[i] = append(seqs[i], "await")
			}
		}
		seqs[i] = append(seqs[i], "await")
	}
	results := make([]seqRes, nseq)
	var wg sync.WaitGroup
	sem := make(chan struct{}, 16)
	for i := range seqs {
		wg.Add(1)
		go func(i int) {
			defer wg.Done()
			sem <- struct{}{}
			defer func() { <-sem }()
			res := &results[i]
			tr := Electiontrigger.NewTimerBasedElectionTrigger(time.Millisecond, nil)
			var cbCalls []string
			cb := func(h primitives.BlockHeight, v primitives.View, _ interfaces.OnElectionCallback) {
				cbCalls = append(cbCalls, fmt.Sprintf("%d/%d", uint64(h), uint64(v)))
			}
			armed, aH, aV, consumed := false, uint64(0), uint64(0), false
			var armedAt time.Time
			replay := strings.Join(seqs[i], ";")
			viol := func(sig, what string) {
				res.viol = append(res.viol, Violation{"C19", sig, what, replay})
			}
			for _, op := range seqs[i] {
				var kind string
				var h, v uint64
				fmt.Sscanf(op, "%s %d %d", &kind, &h, &v)
				out := "ok"
				switch kind {
				case "register":
					if !(armed && aH == h && aV == v) {
						armed, aH, aV, consumed = true, h, v, false
						armedAt = time.Now()
					}
					tr.RegisterOnElection(primitives.BlockHeight(h), primitives.View(v), cb)
				case "stop":
					tr.Stop()
					armed = false
				case "settle":
					time.Sleep(40 * time.Millisecond)
				case "await":
					select {
					case t := <-tr.ElectionChannel():
						th, tv := uint64(t.Hv.Height()), uint64(t.Hv.View())
						out = fmt.Sprintf("trigger %d %d", th, tv)
						n := len(cbCalls)
						t.MoveToNextLeader()
						if len(cbCalls) != n+1 || cbCalls[n] != fmt.Sprintf("%d/%d", th, tv) {
							viol("trigger-callback-mismatch", fmt.Sprintf("trigger (%d,%d) invoked the callback with %v", th, tv, cbCalls[n:]))
						}
						// monitors: exactly the armed pair, at most once per arming
						if !armed {
							viol("trigger-after-stop", fmt.Sprintf("a trigger (%d,%d) was delivered although the timer was stopped", th, tv))
						} else if th != aH || tv != aV {
							viol("stale-trigger-delivered", fmt.Sprintf("trigger (%d,%d) delivered while armed for (%d,%d)", th, tv, aH, aV))
						} else if consumed {
							viol("double-trigger", fmt.Sprintf("second trigger for one arming of (%d,%d)", th, tv))
						}
						// not before the election timeout of the armed view (timers never fire early; scheduling only adds delay)
						if armed && th == aH && tv == aV && !consumed {
							want := time.Millisecond * time.Duration(uint64(1)<<tv) // base * 2^view, the suite's base is 1 ms and views stay below 4
							if el := time.Since(armedAt); el < want {
								viol("trigger-before-timeout", fmt.Sprintf("trigger (%d,%d) delivered %v after arming, before its election timeout %v", th, tv, el, want))
							}
						}
						consumed = true
					case <-time.After(200 * time.Millisecond):
						out = "none"
						if armed && !consumed {
							viol("armed-timer-never-fired", fmt.Sprintf("armed for (%d,%d) (timeout <= 8ms) but no trigger within 200ms", aH, aV))
						}
					}
				}
				res.ops = append(res.ops, op)
				res.outs = append(res.outs, out)
			}
			tr.Stop()
		}(i)
	}
	wg.Wait()
	for i := range results {
		c.Emit("reset", "reset")
		for k := range results[i].ops {
			c.Emit(results[i].ops[k], results[i].outs[k])
		}
		for _, v := range results[i].viol {
			c.Violation(v.Property, v.Signature, v.What, v.Replay)
		}
		c.Nontrivial(strings.Join(seqs[i], ";"))
		c.Class(fmt.Sprintf("seq/len%d", len(seqs[i])))
	}
	triggerRace(c)
}
