package main

import (
	"fmt"

	"github.com/orbs-network/lean-helix-go/services/interfaces"
	"github.com/orbs-network/lean-helix-go/spec/types/go/protocol"
)

// hugeViewRound (C12): a third real node (a member, in its height-1 term) receives a NEW_VIEW that is by the book
// for a view three below 2^64 — signed by that view's leader, with the proof-less votes of three members and a
// fresh block — and then the PREPAREs and COMMITs of that view: it must adopt the view, become prepared, commit and
// start height 2, exactly as the model does (every field is unauthenticated input; arithmetic on it must not wrap
// the node into silence).
func hugeViewRound(c *Ctx, w *World, adv *Adversary) {
	node := NewRealNode(w, 2, memberId(0), nil)
	c.Emit(fmt.Sprintf("2 init %s %d", hexid(node.Id), w.Inst), "init")
	{
		spi, out := node.Update(nil, nil)
		c.Emit("2 update 0 "+spi, out)
	}
	deliver := func(raw *interfaces.ConsensusRawMessage) {
		spi, out := node.Deliver(raw)
		line := "2 deliver " + node.enc.msg(raw)
		if spi != "" {
			line += " " + spi
		}
		c.Emit(line, out)
	}
	v := ^uint64(0) - 2 // its leader is the member at position (2^64-3) mod 4 = 1
	ldr := memberId(1)
	blk := &FakeBlock{H: 1, Id: 424242}
	var votes []*protocol.ViewChangeMessageContentBuilder
	for _, m := range []int{1, 2, 3} {
		votes = append(votes, adv.vcContent(memberId(m), protocol.LEAN_HELIX_VIEW_CHANGE, w.Inst, 1, v, nil))
	}
	pp := adv.ppContent(ldr, protocol.LEAN_HELIX_PREPREPARE, w.Inst, 1, v, blockHash(blk))
	deliver(adv.mkNV(ldr, protocol.LEAN_HELIX_NEW_VIEW, w.Inst, 1, v, votes, pp, blk))
	for _, m := range []int{2, 3} {
		deliver(adv.mkP(memberId(m), protocol.LEAN_HELIX_PREPARE, w.Inst, 1, v, blockHash(blk)))
	}
	for _, m := range []int{1, 2, 3} {
		deliver(adv.mkC(memberId(m), protocol.LEAN_HELIX_COMMIT, w.Inst, 1, v, blockHash(blk)))
	}
	if node.Panicked != "" {
		c.Violation("C12", "handler-panic", "a round in view 2^64-3 panicked: "+node.Panicked, "huge-view-round")
	}
	if len(node.Commits) == 0 {
		c.Violation("C12", "node-wedged", fmt.Sprintf("a member that adopted a NEW_VIEW by the book for view 2^64-3 and then received that view's PREPAREs and COMMITs did not commit (node at height %d, view %d)", uint64(node.St.Height()), uint64(node.St.View())), "huge-view-round")
	}
	c.Class("huge-view-round")
}
