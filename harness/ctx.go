package main

import (
	"bufio"
	"encoding/json"
	"fmt"
	"math/rand"
	"os"
	"path/filepath"
	"sort"
	"strings"
	"sync"
)

// Ctx is the per-run context of one correspondence suite: it owns the single PRNG, the
// operation stream (ops.txt, fed to the Lean driver), the implementation's observed outputs
// (impl.txt, compared line by line with the driver's output) and the measured statistics.
type Ctx struct {
	Suite    string
	Seed     int64
	Tier     string
	Rng      *rand.Rand
	OutDir   string
	ops      *bufio.Writer
	impl     *bufio.Writer
	opsF     *os.File
	implF    *os.File
	N        int
	Classes  map[string]int  // distribution: class -> count
	Distinct map[string]bool // distinct non-trivial case keys
	Samples  []string
	Viol     []Violation
	Known    []Violation
	Notes    map[string]interface{}
	ViolCount map[string]int
	vmu       sync.Mutex
}

// Violation is a failure of a property's own predicate observed on the real implementation
// (found by a monitor, independent of the Lean model).
type Violation struct {
	Property  string `json:"property"`
	Signature string `json:"signature"` // stable identifier of the kind of failure (matched against known_findings.json)
	What      string `json:"what"`
	Replay    string `json:"replay"` // the concrete input / op sequence
}

func NewCtx(suite string, seed int64, tier string, outDir string) *Ctx {
	if err := os.MkdirAll(outDir, 0o755); err != nil {
		panic(err)
	}
	of, err := os.Create(filepath.Join(outDir, "ops.txt"))
	if err != nil {
		panic(err)
	}
	imf, err := os.Create(filepath.Join(outDir, "impl.txt"))
	if err != nil {
		panic(err)
	}
	return &Ctx{Suite: suite, Seed: seed, Tier: tier, Rng: rand.New(rand.NewSource(seed)), OutDir: outDir,
		ops: bufio.NewWriterSize(of, 1<<20), impl: bufio.NewWriterSize(imf, 1<<20), opsF: of, implF: imf,
		Viol: []Violation{}, Samples: []string{}, Classes: map[string]int{}, Distinct: map[string]bool{}, Notes: map[string]interface{}{}, ViolCount: map[string]int{}}
}

func (c *Ctx) Thorough() bool { return c.Tier == "thorough" }

// Emit records one operation and what the implementation did with it.
func (c *Ctx) Emit(op string, out string) {
	if strings.ContainsAny(op, "\n\r") || strings.ContainsAny(out, "\n\r") {
		panic("newline in op/out")
	}
	c.ops.WriteString(op)
	c.ops.WriteByte('\n')
	c.impl.WriteString(out)
	c.impl.WriteByte('\n')
	c.N++
	if len(c.Samples) < 6 || (c.N%997 == 0 && len(c.Samples) < 12) {
		c.Samples = append(c.Samples, op+"  =>  "+out)
	}
}

func (c *Ctx) Class(name string)   { c.Classes[name]++ }
func (c *Ctx) Nontrivial(k string) { c.Distinct[k] = true }

func (c *Ctx) Violation(prop, sig, what, replay string) {
	c.vmu.Lock()
	defer c.vmu.Unlock()
	k := prop + "/" + sig
	c.ViolCount[k]++
	if c.ViolCount[k] <= 3 && len(c.Viol) < 300 {
		c.Viol = append(c.Viol, Violation{prop, sig, what, replay})
	}
}

func (c *Ctx) Close() {
	c.ops.Flush()
	c.impl.Flush()
	c.opsF.Close()
	c.implF.Close()
	keys := make([]string, 0, len(c.Classes))
	for k := range c.Classes {
		keys = append(keys, k)
	}
	sort.Strings(keys)
	st := map[string]interface{}{
		"suite": c.Suite, "seed": c.Seed, "tier": c.Tier, "evaluations": c.N,
		"distinct_nontrivial": len(c.Distinct), "classes": c.Classes, "samples": c.Samples,
		"violations": c.Viol, "violation_counts": c.ViolCount, "notes": c.Notes,
	}
	b, _ := json.MarshalIndent(st, "", " ")
	if err := os.WriteFile(filepath.Join(c.OutDir, "stats.json"), b, 0o644); err != nil {
		panic(err)
	}
}

func hexid(b []byte) string { return fmt.Sprintf("x%x", b) }

func joinOrDash(xs []string) string {
	if len(xs) == 0 {
		return "-"
	}
	return strings.Join(xs, ",")
}

func b2s(b bool) string {
	if b {
		return "true"
	}
	return "false"
}
